package main

// Family "bridge", part 1: world set-up, state dump, vote construction.

import (
	"fmt"
	"math/big"
	"sort"
	"strings"
	"time"

	sdk "github.com/cosmos/cosmos-sdk/types"
	goatcrypto "github.com/goatnetwork/goat/pkg/crypto"
	bitcointypes "github.com/goatnetwork/goat/x/bitcoin/types"
	relayertypes "github.com/goatnetwork/goat/x/relayer/types"
)

type brWorld struct {
	ci      int
	badIdx  int    // actor whose stored vote key is 96 bytes that are not a curve point (-1: none)
	badKey  []byte
	e       *Env
	r       *Rng
	st      *Stats
	voters  []*brVoter // all actors (members and candidates)
	byAddr  map[string]*brVoter
	keys    []*brKey
	curKey  *brKey
	blocks  map[uint64]*btcBlock
	mined   uint64 // highest mined (not necessarily voted) height
	now     time.Time
	height  int64
	ops     []string
	recs    []lkOpRec
	addrIDs map[string]int // withdrawal address string -> id
	// monitor bookkeeping
	accepted   []acceptedVote
	wdStatus   map[uint64]int32
	paidSeen   map[uint64]int
	refundSeen map[uint64]int
	enqDeposits, enqPaid, enqRej, enqHashes []string
	deqDeposits, deqPaid, deqRej, deqHashes []string
	nextNonce  uint64
	credited   map[string]bool
	focus       string
	sig         strings.Builder
	initCoq     string
	addrScripts map[string][]byte
	allTxOuts   map[string][]btcOut
	fakeHash    map[string]int
}

type acceptedVote struct {
	replay func() (int, string) // re-sends the very same message; returns class and op description
	desc   string
}

func cAddr20(b []byte) string { return fmt.Sprintf("@A:%040x@", b) }

func (w *brWorld) addrOf(s string) string {
	if v, ok := w.byAddr[s]; ok {
		return cAddr20(v.Addr)
	}
	// unknown proposer strings: decode if possible, else hash to a fresh id
	if a, err := sdk.AccAddressFromBech32(s); err == nil && len(a) == 20 {
		return cAddr20(a)
	}
	return cAddr20(sha256Sum([]byte(s))[:20])
}

func (w *brWorld) relayer() relayertypes.Relayer {
	r, err := w.e.Relayer.Relayer.Get(w.e.Ctx)
	if err != nil {
		panic(err)
	}
	return r
}

func (w *brWorld) seq() uint64 {
	s, _ := w.e.Relayer.Sequence.Peek(w.e.Ctx)
	return s
}

func (w *brWorld) addOp(opCoq string, cls int, txs []string, rec lkOpRec) {
	w.ops = append(w.ops, cTuple("(ROp "+opCoq+")", cTuple(fmt.Sprint(cls), cList(txs))))
	rec.Cls = cls
	w.recs = append(w.recs, rec)
	w.st.Ops++
	w.st.Count(fmt.Sprintf("%s:class%d", rec.Kind, cls))
}

func setupBridge(r *Rng, st *Stats, ci int) *brWorld {
	e := NewEnv()
	w := &brWorld{e: e, r: r, st: st, byAddr: map[string]*brVoter{}, blocks: map[uint64]*btcBlock{}, addrIDs: map[string]int{},
		wdStatus: map[uint64]int32{}, paidSeen: map[uint64]int{}, refundSeen: map[uint64]int{}, credited: map[string]bool{},
		addrScripts: map[string][]byte{}, allTxOuts: map[string][]btcOut{}, fakeHash: map[string]int{}}
	nActors := 9
	for i := 0; i < nActors; i++ {
		v := mkBrVoter(fmt.Sprintf("%d-%d", ci%5, i), i)
		w.voters = append(w.voters, v)
		w.byAddr[v.AddrStr] = v
	}
	w.keys = []*brKey{mkBrKey("a", 0), mkBrKey("b", 1), mkBrKey("c", 0), mkBrKey("d", 1)}
	w.now = time.Unix(1700000000, 0).UTC()
	w.height = 10
	e.Ctx = e.Ctx.WithBlockHeight(w.height).WithBlockTime(w.now)
	must := func(err error) {
		if err != nil {
			panic(err)
		}
	}
	k := e.Relayer
	nMembers := 1 + r.Intn(6)
	members := w.voters[:nMembers]
	rp := relayertypes.Params{ElectingPeriod: time.Duration(60+r.Intn(120)) * time.Second, AcceptProposerTimeout: time.Duration(r.Intn(3)*20) * time.Second}
	must(k.Params.Set(e.Ctx, rp))
	seq0 := uint64(r.Intn(3)) * 1000
	must(k.Sequence.Set(e.Ctx, seq0))
	var vs []string
	for _, m := range members[1:] {
		vs = append(vs, m.AddrStr)
	}
	epoch0 := uint64(r.Intn(5))
	accepted0 := r.Bool()
	must(k.Relayer.Set(e.Ctx, relayertypes.Relayer{Epoch: epoch0, Proposer: members[0].AddrStr, Voters: vs, LastElected: w.now, ProposerAccepted: accepted0}))
	var voterInit, book, accounts []string
	w.badIdx = -1
	if nMembers >= 3 && r.Chance(12) {
		// genesis validation only checks the length of a vote key: one voter's key does not decompress
		w.badIdx = members[1+r.Intn(nMembers-1)].Idx
		w.badKey = r.Bytes(96)
		w.badKey[0] = 0xff
		st.Count("world-with-an-undecodable-vote-key")
	}
	for _, m := range members {
		key, keyID := m.BlsPub, fmt.Sprint(m.Idx)
		if m.Idx == w.badIdx {
			key, keyID = w.badKey, fmt.Sprint(900+m.Idx) // nobody can sign for it
		}
		must(k.Voters.Set(e.Ctx, m.AddrStr, relayertypes.Voter{Address: m.Addr, VoteKey: key, Height: 1, Status: relayertypes.VOTER_STATUS_ACTIVATED}))
		voterInit = append(voterInit, cTuple(cAddr20(m.Addr), cTuple(keyID, "1")))
		acc := e.Acc.NewAccountWithAddress(e.Ctx, sdk.AccAddress(m.Addr))
		e.Acc.SetAccount(e.Ctx, acc)
		accounts = append(accounts, cAddr20(m.Addr))
	}
	for _, v := range w.voters {
		book = append(book, cTuple(cAddr20(v.Addr), cB([]byte(v.AddrStr))))
	}
	// a candidate that already owns an account (-> off-boarded on registration)
	if r.Chance(30) {
		v := w.voters[nActors-1]
		acc := e.Acc.NewAccountWithAddress(e.Ctx, sdk.AccAddress(v.Addr))
		e.Acc.SetAccount(e.Ctx, acc)
		accounts = append(accounts, cAddr20(v.Addr))
	}
	must(k.Queue.Set(e.Ctx, relayertypes.VoterQueue{}))
	randao := r.Bytes(32)
	must(k.Randao.Set(e.Ctx, randao))
	w.curKey = w.keys[r.Intn(2)]
	must(k.Pubkeys.Set(e.Ctx, relayertypes.EncodePublicKey(w.curKey.Pub)))
	pkInit := []string{w.curKey.idCoq()}
	if r.Chance(50) {
		other := w.keys[2]
		must(k.Pubkeys.Set(e.Ctx, relayertypes.EncodePublicKey(other.Pub)))
		pkInit = append(pkInit, other.idCoq())
	}
	// bitcoin
	b := e.Bitcoin
	bp := bitcointypes.DefaultParams()
	bp.MinDepositAmount = []uint64{1000, 10000, 20000}[r.Intn(3)]
	bp.DepositTaxRate = []uint64{0, 0, 5, 20, 9999}[r.Intn(5)]
	bp.MaxDepositTax = []uint64{0, 1000, 100000000}[r.Intn(3)]
	must(b.Params.Set(e.Ctx, bp))
	must(b.Pubkey.Set(e.Ctx, *w.curKey.Pub))
	start := uint64(100 + r.Intn(50))
	g := mkBlock(r, start, [][]byte{dsha(r.Bytes(8))})
	w.blocks[start] = g
	w.mined = start
	must(b.BlockTip.Set(e.Ctx, start))
	must(b.BlockHashes.Set(e.Ctx, start, g.Hash))
	must(b.EthTxNonce.Set(e.Ctx, 0))
	must(b.EthTxQueue.Set(e.Ctx, bitcointypes.EthTxQueue{BlockNumber: start}))
	must(b.ProcessID.Set(e.Ctx, 0))

	w.initCoq = fmt.Sprintf("(mkBI %s %s %d (%d)%%Z %s %d %s %s %s (%d, %d)%%Z %s %s (%d, %d, %d, %d) %s (Some %s) %d %s %s)",
		cAddr20(members[0].Addr), cList(mapS(members[1:], func(m *brVoter) string { return cAddr20(m.Addr) })), epoch0, w.now.Unix()-timeBase,
		cBool(accepted0), seq0, cList(voterInit), cList(pkInit), cB(randao),
		int64(rp.ElectingPeriod/time.Second), int64(rp.AcceptProposerTimeout/time.Second), cList(accounts), cList(book),
		bp.ConfirmationNumber, bp.MinDepositAmount, bp.DepositTaxRate, bp.MaxDepositTax, cB(bp.DepositMagicPrefix), w.curKey.coq(),
		start, cList([]string{cTuple(fmt.Sprint(start), cB(g.Hash))}), cB([]byte(ChainID)))
	return w
}

func mapS[T any](xs []T, f func(T) string) []string {
	out := make([]string, len(xs))
	for i, x := range xs {
		out[i] = f(x)
	}
	return out
}

// ---------------- votes ----------------
type voteSpec struct {
	Marks     []int  // bit positions set in the bitmap
	BmLen     int    // bitmap length in bytes
	Signers   []int  // actor indexes that really sign (proposer included explicitly)
	Seq       uint64
	Epoch     uint64
	Doc       []byte // what the signers sign
	GarbageSig bool
	Desc      string
}

func (w *brWorld) memberIdx(addr string) int {
	if v, ok := w.byAddr[addr]; ok {
		return v.Idx
	}
	return -1
}

// genVote builds a vote for (method, data) with a randomly chosen (mostly honest) variation.
func (w *brWorld) genVote(method string, data []byte) (*relayertypes.Votes, string, *voteSpec) {
	r := w.r
	rel := w.relayer()
	n := len(rel.Voters)
	seq := w.seq()
	sp := &voteSpec{Seq: seq, Epoch: rel.Epoch, BmLen: 8 * ((n + 63) / 64)}
	if sp.BmLen == 0 && r.Chance(50) {
		sp.BmLen = 8
	}
	need := (2*(n+1) + 2) / 3 // threshold incl. proposer
	// honest: mark 'need-1 .. n' voters
	k := need - 1
	if k < 0 {
		k = 0
	}
	if k < n && r.Chance(60) {
		k += r.Intn(n - k + 1)
	}
	perm := make([]int, n)
	for i := range perm {
		perm[i] = i
	}
	for i := n - 1; i > 0; i-- {
		j := r.Intn(i + 1)
		perm[i], perm[j] = perm[j], perm[i]
	}
	sp.Marks = append(sp.Marks, perm[:k]...)
	propIdx := w.memberIdx(rel.Proposer)
	sp.Signers = []int{propIdx}
	for _, m := range sp.Marks {
		sp.Signers = append(sp.Signers, w.memberIdx(rel.Voters[m]))
	}
	if w.badIdx >= 0 {
		pb := -1
		for i, a := range rel.Voters {
			if w.memberIdx(a) == w.badIdx {
				pb = i
			}
		}
		if pb >= 0 {
			has := false
			for _, m := range sp.Marks {
				has = has || m == pb
			}
			if !has && r.Bool() {
				if len(sp.Marks) > 0 {
					sp.Marks[len(sp.Marks)-1] = pb
				} else {
					sp.Marks = append(sp.Marks, pb)
				}
				has = true
			}
			sp.Signers = []int{propIdx} // the holder of an undecodable key cannot sign
			for _, m := range sp.Marks {
				if m != pb {
					sp.Signers = append(sp.Signers, w.memberIdx(rel.Voters[m]))
				}
			}
			if has {
				w.st.Count("vote:marks-the-undecodable-key-voter")
			}
		}
	}
	proposerStr := rel.Proposer
	docSeq, docEpoch, docMethod, docData, docChain := seq, rel.Epoch, method, data, ChainID
	variant := "honest"
	switch x := r.Intn(100); {
	case x < 55:
	case x < 59:
		variant = "too-few"
		if k > 0 {
			sp.Marks = sp.Marks[:k-1]
			sp.Signers = sp.Signers[:len(sp.Signers)-1]
		}
		if need >= 2 && len(sp.Marks) >= need-1 {
			sp.Marks = sp.Marks[:need-2]
			if len(sp.Signers) > need-1 {
				sp.Signers = sp.Signers[:need-1]
			}
		}
	case x < 65:
		variant = "marks-beyond-voters" // marks that denote nobody stand in for signatures
		extra := 1 + r.Intn(3)
		if len(sp.Marks) >= extra && len(sp.Signers) > extra {
			sp.Marks = sp.Marks[:len(sp.Marks)-extra]
			sp.Signers = sp.Signers[:len(sp.Signers)-extra]
		}
		for i := 0; i < extra; i++ {
			pos := n + r.Intn(64*4-n)
			if i == 0 && r.Chance(60) {
				pos = n // exactly one past the last voter
			} else if r.Chance(30) {
				pos = []int{n + 1, 63, 64, 65, 127, 128, 255}[r.Intn(7)]
				if pos < n {
					pos = n
				}
			}
			dup := false
			for _, m := range sp.Marks {
				dup = dup || m == pos
			}
			if !dup {
				sp.Marks = append(sp.Marks, pos)
			}
		}
		sp.BmLen = 32
		if mx := maxOf(sp.Marks); mx < 64 && r.Bool() {
			sp.BmLen = 8
		}
	case x < 69:
		variant = "mark-without-signature"
		if len(sp.Signers) > 1 {
			sp.Signers = sp.Signers[:len(sp.Signers)-1]
		}
	case x < 72:
		variant = "extra-signer"
		for i := range w.voters {
			found := false
			for _, s := range sp.Signers {
				if s == i {
					found = true
				}
			}
			if !found {
				sp.Signers = append(sp.Signers, i)
				break
			}
		}
	case x < 75:
		variant = "wrong-seq"
		docSeq = seq + uint64(1+r.Intn(2))
		if r.Bool() && seq > 0 {
			docSeq = seq - 1
		}
		if r.Bool() {
			sp.Seq = docSeq
		}
	case x < 78:
		variant = "wrong-epoch"
		docEpoch = rel.Epoch + 1
		if rel.Epoch > 0 && r.Chance(60) {
			variant = "stale-epoch" // a vote produced for an earlier epoch, header and signed document consistent
			docEpoch = rel.Epoch - 1
			if rel.Epoch > 1 && r.Bool() {
				docEpoch = uint64(r.Intn(int(rel.Epoch)))
			}
		}
		if r.Bool() || variant == "stale-epoch" {
			sp.Epoch = docEpoch
		}
	case x < 81:
		variant = "wrong-method"
		docMethod = []string{"Bitcoin/NewPubkey", "Bitcoin/NewBlocks", "Bitcoin/ProcessWithdrawal", "Bitcoin/ReplaceWithdrawal", "Bitcoin/NewConsolidation"}[r.Intn(5)]
	case x < 84:
		variant = "wrong-payload"
		docData = append([]byte{}, data...)
		if len(docData) > 0 {
			docData[r.Intn(len(docData))] ^= 1
		} else {
			docData = []byte{1}
		}
	case x < 86:
		variant = "wrong-chain"
		docChain = "goat-other-1"
	case x < 88:
		variant = "wrong-proposer-doc"
		proposerStr = w.voters[(propIdx+1)%len(w.voters)].AddrStr
	case x < 91:
		variant = "odd-bitmap"
		sp.BmLen = []int{1, 7, 9, 33, 40}[r.Intn(5)]
	case x < 93:
		variant = "garbage-sig"
		sp.GarbageSig = true
	case x < 96:
		variant = "wide-bitmap"
		sp.BmLen = []int{16, 24, 32}[r.Intn(3)]
	default:
		variant = "proposer-only"
		sp.Marks = nil
		sp.Signers = []int{propIdx}
	}
	sp.Desc = variant
	sp.Doc = signDoc(docMethod, docChain, proposerStr, docSeq, docEpoch, docData)
	bm := make([]byte, sp.BmLen)
	for _, m := range sp.Marks {
		if m/8 < len(bm) {
			bm[m/8] |= 1 << uint(m%8)
		}
	}
	var sig []byte
	sigDesc := "None"
	if sp.GarbageSig {
		sig = w.r.Bytes(48)
		sig[0] |= 0xe0 // invalid compressed point flags
	} else {
		var sigs [][]byte
		var ids []string
		for _, s := range sp.Signers {
			if s < 0 {
				continue
			}
			sigs = append(sigs, blsSign(w.voters[s], sp.Doc))
			ids = append(ids, fmt.Sprint(s))
		}
		if len(sigs) == 0 {
			sig = w.r.Bytes(48)
			sig[0] |= 0xe0
		} else {
			var err error
			sig, err = goatcrypto.AggregateSignatures(sigs)
			if err != nil {
				panic(err)
			}
			sigDesc = fmt.Sprintf("(Some (mkSig %s %s))", cList(ids), cB(sp.Doc))
		}
	}
	v := &relayertypes.Votes{Sequence: sp.Seq, Epoch: sp.Epoch, Voters: bm, Signature: sig}
	coq := fmt.Sprintf("(Some (mkVote %d %d %s %s %s))", sp.Seq, sp.Epoch, cB(bm), sigDesc, cB(sig))
	w.st.Count("vote:" + variant)
	return v, coq, sp
}

// quorumOK is the property's own reading of "genuine two-thirds quorum" evaluated on what the harness
// knows: who signed what, who the current members are.
func (w *brWorld) quorumOK(sp *voteSpec, method string, data []byte, rel relayertypes.Relayer, seq uint64) bool {
	if sp.GarbageSig || sp.Seq != seq || sp.Epoch != rel.Epoch {
		return false
	}
	want := signDoc(method, ChainID, rel.Proposer, seq, rel.Epoch, data)
	if string(want) != string(sp.Doc) {
		return false
	}
	n := len(rel.Voters)
	signed := map[int]bool{}
	for _, s := range sp.Signers {
		signed[s] = true
	}
	if !signed[w.memberIdx(rel.Proposer)] {
		return false
	}
	cnt := 1
	seen := map[int]bool{}
	for _, m := range sp.Marks {
		if m >= n || seen[m] {
			return false // a mark that denotes no current voter
		}
		seen[m] = true
		if !signed[w.memberIdx(rel.Voters[m])] {
			return false // a mark without a signature
		}
		cnt++
	}
	// signers must be exactly proposer + marked voters (otherwise the aggregate cannot verify under those keys)
	if len(signed) != cnt {
		return false
	}
	return 3*cnt >= 2*(n+1)
}

var _ = sort.Strings
var _ = strings.Join
var _ = big.NewInt

func maxOf(l []int) int {
	m := -1
	for _, x := range l {
		if x > m {
			m = x
		}
	}
	return m
}
