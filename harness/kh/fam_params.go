package main

// Family "params": histories of DepositTax / Confirmation / MinDeposit request lists through the
// real Keeper.ProcessBridgeRequest; observed = the stored Params after every list.

import (
	"fmt"

	sdk "github.com/cosmos/cosmos-sdk/types"
	"github.com/ethereum/go-ethereum/core/types/goattypes"
	bitcoinmodule "github.com/goatnetwork/goat/x/bitcoin/module"
	bitcointypes "github.com/goatnetwork/goat/x/bitcoin/types"
	relayertypes "github.com/goatnetwork/goat/x/relayer/types"
)

var genesisKey = mkBrKey("genesis", 0)

var boundary64 = []uint64{0, 1, 2, 545, 546, 547, 999, 1000, 1001, 9999, 10000, 10001, 99999999, 100000000, 100000001,
	1 << 31, 1<<32 - 1, 1 << 32, 1<<63 - 1, 1 << 63, 1<<64 - 1, 1<<64 - 2}

func genU64(r *Rng) uint64 {
	switch r.Intn(4) {
	case 0:
		return boundary64[r.Intn(len(boundary64))]
	case 1:
		return uint64(r.Intn(20000))
	case 2:
		return boundary64[r.Intn(len(boundary64))] + uint64(r.Intn(3)) - 1
	default:
		return r.U64() >> uint(r.Intn(64))
	}
}

func init() {
	families["params"] = &Family{Requires: "Cases.ParamsRun", CaseType: "pcase", Run: runParams}
}

type paramsReplay struct {
	Init    [4]uint64     `json:"init"`
	Batches []paramsBatch `json:"batches"`
	Obs     [][4]uint64   `json:"observed"`
	Probes  [][4]uint64   `json:"validate_probes"`
	ProbeOK []bool        `json:"validate_accepts"`
}
type paramsBatch struct {
	Tax  [][2]uint64 `json:"tax"`
	Conf []uint64    `json:"conf"`
	Min  []uint64    `json:"min"`
}

func ptuple(p [4]uint64) string { return cTuple(cN(p[0]), cN(p[1]), cN(p[2]), cN(p[3])) }

func runParams(rng *Rng, n int, st *Stats, param string) ([]string, []any) {
	var cases []string
	var replays []any
	seen := map[string]bool{}
	for ci := 0; ci < n; ci++ {
		r := rng.Fork(uint64(ci))
		e := NewEnv()
		// initial parameters: safe (rate<10000, min>=1000, conf>=1), otherwise arbitrary
		init := [4]uint64{1 + genU64(r)%1000, 1000 + genU64(r)%(1<<40), genU64(r) % 10000, genU64(r)}
		p := bitcointypes.DefaultParams()
		p.ConfirmationNumber, p.MinDepositAmount, p.DepositTaxRate, p.MaxDepositTax = init[0], init[1], init[2], init[3]
		if err := e.Bitcoin.Params.Set(e.Ctx, p); err != nil {
			panic(err)
		}
		rep := paramsReplay{Init: init}
		var hs []string
		var obs []string
		nb := 1 + r.Intn(6)
		for b := 0; b < nb; b++ {
			var pb paramsBatch
			var reqs goattypes.BridgeRequests
			for i, k := 0, r.Intn(4); i < k; i++ {
				x := [2]uint64{genU64(r), genU64(r)}
				pb.Tax = append(pb.Tax, x)
				reqs.DepositTax = append(reqs.DepositTax, &goattypes.DepositTaxRequest{Rate: x[0], Max: x[1]})
				st.Count(fmt.Sprintf("tax.rate<10000=%v", x[0] < 10000))
			}
			for i, k := 0, r.Intn(3); i < k; i++ {
				x := genU64(r)
				pb.Conf = append(pb.Conf, x)
				reqs.Confirmation = append(reqs.Confirmation, &goattypes.ConfirmationNumberRequest{Number: x})
				st.Count(fmt.Sprintf("conf.zero=%v", x == 0))
			}
			for i, k := 0, r.Intn(3); i < k; i++ {
				x := genU64(r)
				pb.Min = append(pb.Min, x)
				reqs.MinDeposit = append(reqs.MinDeposit, &goattypes.MinDepositRequest{Satoshi: x})
				st.Count(fmt.Sprintf("min>1000=%v", x > 1000))
			}
			cls, _ := e.Tx(func(ctx sdk.Context) error { return e.Bitcoin.ProcessBridgeRequest(ctx, reqs) })
			st.Ops++
			if cls != 0 {
				st.Violate("C20", "no-error", "param-request-fails", "ProcessBridgeRequest failed on a parameter request list", pb)
			}
			got, _ := e.Bitcoin.Params.Get(e.Ctx)
			o := [4]uint64{got.ConfirmationNumber, got.MinDepositAmount, got.DepositTaxRate, got.MaxDepositTax}
			rep.Batches = append(rep.Batches, pb)
			rep.Obs = append(rep.Obs, o)
			// implementation-side monitor: the bounds of the property
			st.Chk("bounds")
			if !(o[2] < 10000 && o[1] >= 1000 && o[0] >= 1) {
				st.Violate("C20", "bounds", "bounds", fmt.Sprintf("parameters left the safe range: conf=%d min=%d rate=%d", o[0], o[1], o[2]), rep)
			}
			taxes := make([]string, len(pb.Tax))
			for i, x := range pb.Tax {
				taxes[i] = cTuple(cN(x[0]), cN(x[1]))
			}
			hs = append(hs, cTuple(cList(taxes), cNs(pb.Conf), cNs(pb.Min)))
			obs = append(obs, ptuple(o))
		}
		// genesis validation: the real Params.Validate on boundary tuples (network and magic prefix valid)
		var probes []string
		for i := 0; i < 12; i++ {
			t := [4]uint64{[]uint64{0, 1, 1, 6, 20}[r.Intn(5)], []uint64{0, 545, 546, 547, 1000, 100000}[r.Intn(6)],
				[]uint64{0, 0, 1, 50, 9999, 10000, 10001, 20000, 1 << 40}[r.Intn(9)], []uint64{0, 0, 1, 1000000, 100000000, 100000001, 1 << 50}[r.Intn(7)]}
			if r.Chance(25) {
				t = [4]uint64{1 + genU64(r)%50, genU64(r), genU64(r) % 10003, genU64(r) % 100000003}
			}
			q := bitcointypes.DefaultParams()
			q.ConfirmationNumber, q.MinDepositAmount, q.DepositTaxRate, q.MaxDepositTax = t[0], t[1], t[2], t[3]
			ok := uint64(0)
			if q.Validate() == nil {
				ok = 1
			}
			// the same parameters inside a genesis state that names a relayer key (as every real genesis does)
			gs := bitcointypes.DefaultGenesis()
			gs.Params, gs.Pubkey = q, genesisKey.Pub
			okG := uint64(0)
			if gs.Validate() == nil {
				okG = 1
			}
			// and through the module's InitGenesis on a restart from exported state (height > 0)
			okI := uint64(2)
			if i == 0 {
				okI = 1
				f := NewEnv()
				f.Ctx = f.Ctx.WithBlockHeight([]int64{0, 1, 250001}[r.Intn(3)])
				if err := f.Relayer.Pubkeys.Set(f.Ctx, relayertypes.EncodePublicKey(genesisKey.Pub)); err != nil {
					panic(err)
				}
				if msg := guard("bitcoin InitGenesis", func() { bitcoinmodule.InitGenesis(f.Ctx, f.Bitcoin, *gs) }); msg != "" {
					okI = 0
				}
			}
			st.Count(fmt.Sprintf("genesis-validate:accept=%d", ok))
			probes = append(probes, ptuple(t))
			obs = append(obs, ptuple([4]uint64{ok, okG, okI, 0}))
			rep.Probes = append(rep.Probes, t)
			rep.ProbeOK = append(rep.ProbeOK, ok == 1)
		}
		key := fmt.Sprint(rep.Batches)
		if !seen[key] {
			seen[key] = true
			st.Distinct++
		}
		st.Sample(rep)
		cases = append(cases, cTuple(ptuple(init), cList(hs), cList(probes), cList(obs)))
		replays = append(replays, rep)
	}
	return cases, replays
}
