package main

// C18: export the module state of an Env reached by a history, initialise a fresh Env from it with the
// real InitGenesis functions, and compare: second export, complete module stores (primary and derived
// collections), validators returned to CometBFT vs the exported active set.

import (
	"bytes"
	"encoding/hex"
	"encoding/json"
	"fmt"
	"sort"
	"strings"

	abci "github.com/cometbft/cometbft/abci/types"
	sdk "github.com/cosmos/cosmos-sdk/types"
	bitcoinmodule "github.com/goatnetwork/goat/x/bitcoin/module"
	bitcointypes "github.com/goatnetwork/goat/x/bitcoin/types"
	lockingmodule "github.com/goatnetwork/goat/x/locking/module"
	lockingtypes "github.com/goatnetwork/goat/x/locking/types"
	relayermodule "github.com/goatnetwork/goat/x/relayer/module"
	relayertypes "github.com/goatnetwork/goat/x/relayer/types"
)

func dumpStore(e *Env, name string) map[string]string {
	res := map[string]string{}
	it := e.Ctx.KVStore(e.Keys[name]).Iterator(nil, nil)
	defer it.Close()
	for ; it.Valid(); it.Next() {
		res[hex.EncodeToString(it.Key())] = hex.EncodeToString(it.Value())
	}
	return res
}

func guard(what string, fn func()) (msg string) {
	defer func() {
		if r := recover(); r != nil {
			msg = fmt.Sprintf("%s panics: %v", what, r)
		}
	}()
	fn()
	return ""
}

// classify a panic message into a stable key (numbers and hex removed)
func panicClass(s string) string {
	out := make([]rune, 0, len(s))
	for _, c := range s {
		if (c >= '0' && c <= '9') || c == '"' {
			continue
		}
		out = append(out, c)
	}
	r := string(out)
	if len(r) > 90 {
		r = r[:90]
	}
	return strings.TrimSpace(r)
}

// exportImportCheck runs the round trip for the given modules ("locking", "relayer", "bitcoin").
func exportImportCheck(e *Env, st *Stats, modules []string, replay any) {
	has := func(m string) bool {
		for _, x := range modules {
			if x == m {
				return true
			}
		}
		return false
	}
	st.Chk("C18-export-import")
	var lg *lockingtypes.GenesisState
	var rg *relayertypes.GenesisState
	var bg *bitcointypes.GenesisState
	if msg := guard("export", func() {
		if has("relayer") {
			rg = relayermodule.ExportGenesis(e.Ctx, e.Relayer)
		}
		if has("bitcoin") {
			bg = bitcoinmodule.ExportGenesis(e.Ctx, e.Bitcoin)
		}
		if has("locking") {
			lg = lockingmodule.ExportGenesis(e.Ctx, e.Locking)
		}
	}); msg != "" {
		st.Violate("C18", "export", "export-panics:"+panicClass(msg), msg, replay)
		return
	}
	// through JSON, as the genesis file does
	js := map[string][]byte{}
	if rg != nil {
		js["relayer"] = e.Cdc.MustMarshalJSON(rg)
	}
	if bg != nil {
		js["bitcoin"] = e.Cdc.MustMarshalJSON(bg)
	}
	if lg != nil {
		js["locking"] = e.Cdc.MustMarshalJSON(lg)
	}
	f := NewEnv()
	f.Ctx = f.Ctx.WithBlockHeader(e.Ctx.BlockHeader())
	var vs []abci.ValidatorUpdate
	paramsPatched := false
	for _, m := range []string{"relayer", "bitcoin", "locking"} { // the order of app_config.go's InitGenesis
		raw, ok := js[m]
		if !ok {
			continue
		}
		msg := guard("InitGenesis("+m+")", func() {
			switch m {
			case "relayer":
				var g relayertypes.GenesisState
				f.Cdc.MustUnmarshalJSON(raw, &g)
				if err := g.Validate(); err != nil {
					panic("genesis does not validate: " + err.Error())
				}
				relayermodule.InitGenesis(f.Ctx, f.Relayer, g)
			case "bitcoin":
				var g bitcointypes.GenesisState
				f.Cdc.MustUnmarshalJSON(raw, &g)
				if err := g.Validate(); err != nil {
					panic("genesis does not validate: " + err.Error())
				}
				bitcoinmodule.InitGenesis(f.Ctx, f.Bitcoin, g)
			case "locking":
				var g lockingtypes.GenesisState
				f.Cdc.MustUnmarshalJSON(raw, &g)
				if err := g.Validate(); err != nil {
					panic("genesis does not validate: " + err.Error())
				}
				vs = lockingmodule.InitGenesis(f.Ctx, f.Locking, g)
			}
		})
		if msg != "" {
			st.Violate("C18", "import", "import-fails:"+m+":"+importErrClass(msg), "the exported state of module "+m+" cannot be imported: "+strings.ToValidUTF8(msg, "?"),
				map[string]any{"history": replay, "exported": json.RawMessage(raw)})
			if m == "bitcoin" && strings.Contains(msg, "DepositTax") {
				// go on with the rest of the module state: retry with the tax parameters neutralised, and leave the
				// parameters out of the comparisons below
				var g bitcointypes.GenesisState
				f.Cdc.MustUnmarshalJSON(raw, &g)
				g.Params.DepositTaxRate, g.Params.MaxDepositTax = 0, 0
				if msg2 := guard("InitGenesis(bitcoin, tax neutralised)", func() { bitcoinmodule.InitGenesis(f.Ctx, f.Bitcoin, g) }); msg2 == "" {
					paramsPatched = true
					continue
				}
			}
			return
		}
	}
	// second export identical
	for _, m := range modules {
		var second []byte
		msg := guard("second export", func() {
			switch m {
			case "relayer":
				second = f.Cdc.MustMarshalJSON(relayermodule.ExportGenesis(f.Ctx, f.Relayer))
			case "bitcoin":
				second = f.Cdc.MustMarshalJSON(bitcoinmodule.ExportGenesis(f.Ctx, f.Bitcoin))
			case "locking":
				second = f.Cdc.MustMarshalJSON(lockingmodule.ExportGenesis(f.Ctx, f.Locking))
			}
		})
		if msg != "" {
			st.Violate("C18", "export", "second-export-panics:"+m, msg, replay)
			continue
		}
		if m == "bitcoin" && paramsPatched {
			var g1, g2 bitcointypes.GenesisState
			f.Cdc.MustUnmarshalJSON(js[m], &g1)
			f.Cdc.MustUnmarshalJSON(second, &g2)
			g1.Params, g2.Params = bitcointypes.Params{}, bitcointypes.Params{}
			js[m], second = f.Cdc.MustMarshalJSON(&g1), f.Cdc.MustMarshalJSON(&g2)
		}
		if !bytes.Equal(second, js[m]) {
			st.Violate("C18", "round-trip", "second-export-differs:"+m, "exporting the re-imported state of module "+m+" gives a different genesis",
				map[string]any{"history": replay, "first": json.RawMessage(js[m]), "second": json.RawMessage(second)})
		}
	}
	// complete stores: primary and derived collections
	for _, m := range modules {
		a, b := dumpStore(e, m), dumpStore(f, m)
		diff := map[string][2]string{}
		for k, v := range a {
			// presence matters too: the entries of a key set (the power ranking) have empty values
			if bv, ok := b[k]; !ok {
				diff[k] = [2]string{v, "(absent)"}
			} else if bv != v {
				diff[k] = [2]string{v, bv}
			}
		}
		for k, v := range b {
			if _, ok := a[k]; !ok {
				diff[k] = [2]string{"(absent)", v}
			}
		}
		// an absent entry and an entry holding zero answer every query alike (slashed totals of value 0)
		for k, d := range diff {
			if m == "bitcoin" && paramsPatched && strings.HasPrefix(k, "00") {
				delete(diff, k)
				continue
			}
			// the relayer boarding queues are rebuilt from the voter records in address order; the running chain
			// keeps them in request order.  No query exposes them and the property asks for the same invariants,
			// not the same order: compared as multisets (order differences are counted as an observation)
			if m == "relayer" && strings.HasPrefix(k, "05") && sameQueueUpToOrder(e, f) {
				delete(diff, k)
				st.Count("c18:observation:boarding-queue-order-differs-after-import")
				continue
			}
			// a collections.Sequence that was never written reads as 0, InitGenesis writes the 0 explicitly
			if (d[0] == "(absent)" && d[1] == "0000000000000000") || (d[1] == "(absent)" && d[0] == "0000000000000000") {
				delete(diff, k)
				st.Count("c18:unset-sequence-equals-zero-normalised")
				continue
			}
			if m == "locking" && strings.EqualFold(storePrefixName(m, k), "slashed") && (d[0] == "(absent)" || d[1] == "(absent)") {
				z := strings.ReplaceAll(d[0]+d[1], "(absent)", "")
				if bz, _ := hex.DecodeString(z); string(bz) == "0" {
					delete(diff, k)
					st.Count("c18:zero-slashed-entry-normalised")
				}
			}
		}
		if len(diff) > 0 {
			names := map[string]bool{}
			for k := range diff {
				names[storePrefixName(m, k)] = true
			}
			var ns []string
			for n := range names {
				ns = append(ns, n)
			}
			sort.Strings(ns)
			st.Violate("C18", "round-trip", "store-differs:"+m+":"+strings.Join(ns, "+"), fmt.Sprintf("after export and import the %s store differs in %d entries of collection(s) %s", m, len(diff), strings.Join(ns, ", ")),
				map[string]any{"history": replay, "diff_original_vs_imported": diff})
		}
	}
	// the validators handed to CometBFT are the exported active set
	if has("locking") {
		active, err := e.Locking.ActiveValidators(e.Ctx)
		if err == nil {
			key := func(l []abci.ValidatorUpdate) []string {
				var r []string
				for _, u := range l {
					r = append(r, fmt.Sprintf("%x:%d", u.PubKey.GetSecp256K1(), u.Power))
				}
				sort.Strings(r)
				return r
			}
			var av []string
			for _, v := range active {
				av = append(av, fmt.Sprintf("%x:%d", v.PubKey.Bytes(), v.Power))
			}
			sort.Strings(av)
			if fmt.Sprint(av) != fmt.Sprint(key(vs)) {
				st.Violate("C18", "validators", "initial-validators-differ", fmt.Sprintf("InitGenesis hands CometBFT %v, the exported active set is %v", key(vs), av), replay)
			}
		}
	}
	_ = sdk.Context{}
}

// stable class of an import failure: the error text without addresses and numbers
// importKeepsSequence: C02 over a restart from exported state: the proposal sequence (and with it the set of
// consumed votes), the epoch and the proposer survive export -> InitGenesis of the relayer module.
func importKeepsSequence(e *Env, st *Stats, replay any) {
	st.Chk("C02-sequence-survives-import")
	f := NewEnv()
	f.Ctx = f.Ctx.WithBlockHeader(e.Ctx.BlockHeader())
	msg := guard("relayer export/import", func() {
		raw := e.Cdc.MustMarshalJSON(relayermodule.ExportGenesis(e.Ctx, e.Relayer))
		var g relayertypes.GenesisState
		f.Cdc.MustUnmarshalJSON(raw, &g)
		relayermodule.InitGenesis(f.Ctx, f.Relayer, g)
	})
	if msg != "" {
		return // C18's business
	}
	s0, _ := e.Relayer.Sequence.Peek(e.Ctx)
	s1, _ := f.Relayer.Sequence.Peek(f.Ctx)
	r0, _ := e.Relayer.Relayer.Get(e.Ctx)
	r1, _ := f.Relayer.Relayer.Get(f.Ctx)
	if s0 != s1 || r0.Epoch != r1.Epoch || r0.Proposer != r1.Proposer {
		st.Violate("C02", "import", "vote-context-lost-on-import", fmt.Sprintf("after export and InitGenesis of the relayer module the vote context is (sequence %d, epoch %d, proposer %s), it was (%d, %d, %s): votes consumed before are acceptable again",
			s1, r1.Epoch, r1.Proposer, s0, r0.Epoch, r0.Proposer), replay)
	}
}

func importErrClass(msg string) string {
	msg = strings.ToValidUTF8(msg, "")
	if i := strings.Index(msg, "genesis does not validate: "); i >= 0 {
		msg = msg[i+len("genesis does not validate: "):]
	}
	if strings.HasPrefix(msg, "invalid voter of") {
		if j := strings.LastIndex(msg, ": "); j >= 0 {
			msg = "invalid voter: " + msg[j+2:]
		}
	}
	if j := strings.Index(msg, ":"); j > 0 && !strings.HasPrefix(msg, "invalid voter") {
		msg = msg[:j]
	}
	return panicClass(msg)
}

// collection names by store prefix byte (read from the keepers' schemas where exported, otherwise by number)
func storePrefixName(module, hexKey string) string {
	if len(hexKey) < 2 {
		return "?"
	}
	p := hexKey[:2]
	if module == "locking" {
		if n, ok := lockingPrefixes[p]; ok {
			return n
		}
	}
	return "prefix-" + p
}

var lockingPrefixes = map[string]string{}

func initLockingPrefixes(e *Env) {
	if len(lockingPrefixes) > 0 {
		return
	}
	for _, c := range e.Locking.Schema.ListCollections() {
		lockingPrefixes[hex.EncodeToString(c.GetPrefix())[:2]] = c.GetName()
	}
}

func sameQueueUpToOrder(e, f *Env) bool {
	a, err1 := e.Relayer.Queue.Get(e.Ctx)
	b, err2 := f.Relayer.Queue.Get(f.Ctx)
	if err1 != nil || err2 != nil {
		return false
	}
	srt := func(l []string) string { x := append([]string{}, l...); sort.Strings(x); return strings.Join(x, ",") }
	return srt(a.OnBoarding) == srt(b.OnBoarding) && srt(a.OffBoarding) == srt(b.OffBoarding)
}
