package main

// Keeper-level environment: the four real GOAT keepers plus the real auth account keeper on one
// in-memory multistore, wired to each other the way app_config.go / the module providers wire them.

import (
	"context"
	"time"

	"cosmossdk.io/log"
	"cosmossdk.io/store"
	"cosmossdk.io/store/metrics"
	storetypes "cosmossdk.io/store/types"
	cmtproto "github.com/cometbft/cometbft/proto/tendermint/types"
	dbm "github.com/cosmos/cosmos-db"
	"github.com/cosmos/cosmos-sdk/codec"
	addresscodec "github.com/cosmos/cosmos-sdk/codec/address"
	codectypes "github.com/cosmos/cosmos-sdk/codec/types"
	cryptocodec "github.com/cosmos/cosmos-sdk/crypto/codec"
	"github.com/cosmos/cosmos-sdk/runtime"
	sdk "github.com/cosmos/cosmos-sdk/types"
	authkeeper "github.com/cosmos/cosmos-sdk/x/auth/keeper"
	authtypes "github.com/cosmos/cosmos-sdk/x/auth/types"
	"github.com/ethereum/go-ethereum/beacon/engine"
	"github.com/ethereum/go-ethereum/common"
	"github.com/ethereum/go-ethereum/params"
	_ "github.com/goatnetwork/goat/app" // bech32 prefixes
	bitcoinkeeper "github.com/goatnetwork/goat/x/bitcoin/keeper"
	bitcointypes "github.com/goatnetwork/goat/x/bitcoin/types"
	goatkeeper "github.com/goatnetwork/goat/x/goat/keeper"
	goattypes "github.com/goatnetwork/goat/x/goat/types"
	lockingkeeper "github.com/goatnetwork/goat/x/locking/keeper"
	lockingtypes "github.com/goatnetwork/goat/x/locking/types"
	relayerkeeper "github.com/goatnetwork/goat/x/relayer/keeper"
	relayertypes "github.com/goatnetwork/goat/x/relayer/types"
)

const ChainID = "goat-verif-1"

type Env struct {
	MS      storetypes.CommitMultiStore
	Ctx     sdk.Context
	Cdc     codec.Codec
	Acc     authkeeper.AccountKeeper
	Relayer relayerkeeper.Keeper
	Bitcoin bitcoinkeeper.Keeper
	Locking lockingkeeper.Keeper
	Goat    goatkeeper.Keeper
	Engine  *fakeEngine
	Keys    map[string]*storetypes.KVStoreKey
}

// the engine client handed to the goat keeper; the finalize family scripts its next answers (status, or a
// client-side error of a given class), every other family leaves the zero value = always VALID
type fakeEngine struct {
	npStatus, fcStatus string
	npErr, fcErr       error
}

func (f fakeEngine) ForkchoiceUpdatedV3(ctx context.Context, update *engine.ForkchoiceStateV1, p *engine.PayloadAttributes) (engine.ForkChoiceResponse, error) {
	if f.fcErr != nil {
		return engine.ForkChoiceResponse{}, f.fcErr
	}
	if f.fcStatus != "" {
		return engine.ForkChoiceResponse{PayloadStatus: engine.PayloadStatusV1{Status: f.fcStatus}}, nil
	}
	return engine.ForkChoiceResponse{PayloadStatus: engine.PayloadStatusV1{Status: engine.VALID}}, nil
}
func (fakeEngine) GetPayloadV4(ctx context.Context, id engine.PayloadID) (*engine.ExecutionPayloadEnvelope, error) {
	return nil, nil
}
func (f fakeEngine) NewPayloadV4(ctx context.Context, p *engine.ExecutableData, vh []common.Hash, br common.Hash, reqs [][]byte) (*engine.PayloadStatusV1, error) {
	if f.npErr != nil {
		return nil, f.npErr
	}
	if f.npStatus != "" {
		return &engine.PayloadStatusV1{Status: f.npStatus}, nil
	}
	return &engine.PayloadStatusV1{Status: engine.VALID}, nil
}
func (fakeEngine) ExchangeCapabilities(ctx context.Context, caps []string) ([]string, error) {
	return nil, nil
}
func (fakeEngine) GetClientVersionV1(ctx context.Context, info engine.ClientVersionV1) ([]engine.ClientVersionV1, error) {
	return nil, nil
}
func (fakeEngine) GetChainConfig(ctx context.Context) (*params.ChainConfig, error) {
	return &params.ChainConfig{}, nil
}

func NewEnv() *Env {
	keys := map[string]*storetypes.KVStoreKey{}
	for _, n := range []string{"acc", relayertypes.StoreKey, bitcointypes.StoreKey, lockingtypes.StoreKey, goattypes.StoreKey} {
		keys[n] = storetypes.NewKVStoreKey(n)
	}
	db := dbm.NewMemDB()
	ms := store.NewCommitMultiStore(db, log.NewNopLogger(), metrics.NewNoOpMetrics())
	for _, k := range keys {
		ms.MountStoreWithDB(k, storetypes.StoreTypeIAVL, db)
	}
	if err := ms.LoadLatestVersion(); err != nil {
		panic(err)
	}
	registry := codectypes.NewInterfaceRegistry()
	cryptocodec.RegisterInterfaces(registry)
	authtypes.RegisterInterfaces(registry)
	cdc := codec.NewProtoCodec(registry)
	prefix := sdk.GetConfig().GetBech32AccountAddrPrefix()
	addrCodec := addresscodec.NewBech32Codec(prefix)

	acc := authkeeper.NewAccountKeeper(cdc, runtime.NewKVStoreService(keys["acc"]), authtypes.ProtoBaseAccount,
		map[string][]string{}, addrCodec, prefix, authtypes.NewModuleAddress("gov").String())

	e := &Env{MS: ms, Cdc: cdc, Acc: acc, Engine: &fakeEngine{}, Keys: keys}
	e.Relayer = relayerkeeper.NewKeeper(cdc, addrCodec, runtime.NewKVStoreService(keys[relayertypes.StoreKey]), acc, log.NewNopLogger())
	e.Bitcoin = bitcoinkeeper.NewKeeper(cdc, addrCodec, runtime.NewKVStoreService(keys[bitcointypes.StoreKey]), log.NewNopLogger(), e.Relayer)
	e.Locking = lockingkeeper.NewKeeper(cdc, addrCodec, runtime.NewKVStoreService(keys[lockingtypes.StoreKey]), acc, log.NewNopLogger())
	e.Goat = goatkeeper.NewKeeper(cdc, addrCodec, runtime.NewKVStoreService(keys[goattypes.StoreKey]), log.NewNopLogger(),
		e.Bitcoin, e.Locking, e.Relayer, acc, e.Engine)

	e.Ctx = sdk.NewContext(ms, cmtproto.Header{ChainID: ChainID, Height: 1, Time: time.Unix(1700000000, 0).UTC()}, false, log.NewNopLogger())
	if err := acc.Params.Set(e.Ctx, authtypes.DefaultParams()); err != nil {
		panic(err)
	}
	return e
}

// Tx runs fn the way baseapp.runTx runs a message: on a cache-wrapped context that is written back
// only when fn succeeds; a Go panic is recovered and classified (class 2).  Returns 0 ok / 1 err / 2 panic.
func (e *Env) Tx(fn func(ctx sdk.Context) error) (class int, err error) {
	cctx, write := e.Ctx.CacheContext()
	defer func() {
		if r := recover(); r != nil {
			class = 2
			if er, ok := r.(error); ok {
				err = er
			}
		}
	}()
	if err = fn(cctx); err != nil {
		return 1, err
	}
	write()
	return 0, nil
}

// Direct runs fn directly on the base context (partial writes of a failing call stay), recovering panics.
func (e *Env) Direct(fn func(ctx sdk.Context) error) (class int, err error) {
	defer func() {
		if r := recover(); r != nil {
			class = 2
		}
	}()
	if err = fn(e.Ctx); err != nil {
		return 1, err
	}
	return 0, nil
}
