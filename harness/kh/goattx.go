package main

import (
	"fmt"
	"math/big"
	"time"

	ethtypes "github.com/ethereum/go-ethereum/core/types"
	"github.com/ethereum/go-ethereum/core/types/goattypes"
	"github.com/ethereum/go-ethereum/rlp"
	lockingtypes "github.com/goatnetwork/goat/x/locking/types"
)

type goatTxRaw struct {
	Module uint8
	Action uint8
	Nonce  uint64
	Data   []byte
}

// decodeGoatTx decodes a system transaction through its wire form (what the execution layer sees).
func decodeGoatTx(tx *ethtypes.Transaction) (goatTxRaw, goattypes.Tx, error) {
	var raw goatTxRaw
	bin, err := tx.MarshalBinary()
	if err != nil {
		return raw, nil, err
	}
	if len(bin) == 0 || bin[0] != ethtypes.GoatTxType {
		return raw, nil, fmt.Errorf("not a goat tx")
	}
	if err := rlp.DecodeBytes(bin[1:], &raw); err != nil {
		return raw, nil, err
	}
	inner, err := goattypes.DecodeTx(goattypes.Module(raw.Module), goattypes.Action(raw.Action), raw.Data)
	return raw, inner, err
}

// goatTxCoq renders a locking-module system tx as the tuple LockingRun expects and feeds the C12/C15 monitors.
func goatTxCoq(tx *ethtypes.Transaction, st *Stats, recs []lkOpRec, delivered map[string]*big.Int, claimedOut *big.Int,
	deliveredIDs map[uint64]bool, reqTime map[uint64]time.Time, reqExit map[uint64]bool, now time.Time, p lockingtypes.Params,
	addBig func(map[string]*big.Int, string, *big.Int)) string {
	raw, inner, err := decodeGoatTx(tx)
	if err != nil {
		st.Violate("C06", "decode", "undecodable-system-tx", "system tx cannot be decoded: "+err.Error(), recs)
		return "(9%N, 0%N, 0%N, 0%N, 0%Z, 0%Z)"
	}
	switch t := inner.(type) {
	case *goattypes.DistributeRewardTx:
		claimedOut.Add(claimedOut, t.Goat)
		claimedOut.Add(claimedOut, t.GasReward)
		return cTuple("0%N", cN(raw.Nonce)+"%N", cN(t.Id)+"%N", cNb(new(big.Int).SetBytes(t.Recipient.Bytes())), cZ(t.Goat), cZ(t.GasReward))
	case *goattypes.CompleteUnlockTx:
		addBig(delivered, lockingtypes.TokenDenom(t.Token), t.Amount)
		st.Chk("C15-delay")
		if deliveredIDs[t.Id] {
			st.Violate("C15", "once", "unlock-delivered-twice", fmt.Sprintf("unlock %d delivered twice", t.Id), recs)
		}
		deliveredIDs[t.Id] = true
		if rt, ok := reqTime[t.Id]; ok {
			min := p.UnlockDuration
			if reqExit[t.Id] {
				min = p.ExitingDuration
			}
			if now.Before(rt.Add(min)) {
				st.Violate("C15", "delay", "unlock-early", fmt.Sprintf("unlock %d requested at %d ms delivered at %d ms, before the %s delay", t.Id, rt.UnixMilli(), now.UnixMilli(), min), recs)
			}
		} else {
			st.Violate("C15", "once", "unlock-invented", fmt.Sprintf("unlock %d delivered but never requested", t.Id), recs)
		}
		return cTuple("1%N", cN(raw.Nonce)+"%N", cN(t.Id)+"%N", cNb(new(big.Int).SetBytes(t.Recipient.Bytes())), "(Z.of_N "+cNb(new(big.Int).SetBytes(t.Token.Bytes()))+")", cZ(t.Amount))
	}
	return "(9%N, 0%N, 0%N, 0%N, 0%Z, 0%Z)"
}
