package main

// Family "bridge", part 2: state dump of the relayer and bitcoin keepers as a Coq term.

import (
	"fmt"
	"math/big"
	"strings"

	bitcointypes "github.com/goatnetwork/goat/x/bitcoin/types"
	relayertypes "github.com/goatnetwork/goat/x/relayer/types"
)

func cRcpt(r *bitcointypes.WithdrawalReceipt) string {
	return cTuple(cB(r.Txid), fmt.Sprint(r.Txout), fmt.Sprint(r.Amount))
}

func (w *brWorld) blsKeyID(key []byte) (kind int, id string) {
	if w.badIdx >= 0 && string(key) == string(w.badKey) {
		return 1, fmt.Sprint(900 + w.badIdx)
	}
	for _, v := range w.voters {
		if string(v.BlsPub) == string(key) {
			return 1, fmt.Sprint(v.Idx)
		}
		if string(v.BlsHash) == string(key) {
			return 0, fmt.Sprint(v.Idx)
		}
	}
	if id, ok := w.fakeHash[string(key)]; ok {
		return 0, fmt.Sprint(id)
	}
	// unknown hash / key: a fresh id derived from the bytes
	return 0, new(big.Int).SetBytes(sha256Sum(key)[:6]).String()
}

func (w *brWorld) wdAddrID(s string) int {
	if id, ok := w.addrIDs[s]; ok {
		return id
	}
	id := len(w.addrIDs) + 1
	w.addrIDs[s] = id
	return id
}

type brDump struct {
	coq   string
	rel   relayertypes.Relayer
	queue relayertypes.VoterQueue
	vrec  map[string]relayertypes.Voter
	bq    bitcointypes.EthTxQueue
	wds   map[uint64]bitcointypes.Withdrawal
	seq   uint64
	bqParamsMin uint64
}

func (w *brWorld) dump() *brDump {
	ctx := w.e.Ctx
	k := w.e.Relayer
	b := w.e.Bitcoin
	d := &brDump{vrec: map[string]relayertypes.Voter{}, wds: map[uint64]bitcointypes.Withdrawal{}}
	d.rel = w.relayer()
	d.seq = w.seq()
	var voters, pubkeys, hashes, deposited, wds, procs, qdep, qpaid []string
	{
		it, _ := k.Voters.Iterate(ctx, nil)
		for ; it.Valid(); it.Next() {
			kv, _ := it.KeyValue()
			d.vrec[kv.Key] = kv.Value
			kind, id := w.blsKeyID(kv.Value.VoteKey)
			voters = append(voters, cTuple(w.addrOf(kv.Key), cTuple(fmt.Sprint(kind), id, fmt.Sprint(int(kv.Value.Status)), fmt.Sprint(kv.Value.Height))))
		}
		it.Close()
	}
	d.queue, _ = k.Queue.Get(ctx)
	{
		it, _ := k.Pubkeys.Iterate(ctx, nil)
		for ; it.Valid(); it.Next() {
			key, _ := it.Key()
			if len(key) > 0 {
				pubkeys = append(pubkeys, cTuple(fmt.Sprint(key[0]), new(big.Int).SetBytes(key[1:]).String()))
			}
		}
		it.Close()
	}
	randao, _ := k.Randao.Get(ctx)
	bp, _ := b.Params.Get(ctx)
	d.bqParamsMin = bp.MinDepositAmount
	pkCoq := "None"
	if pk, err := b.Pubkey.Get(ctx); err == nil {
		raw := relayertypes.EncodePublicKey(&pk)
		if len(raw) > 0 {
			pkCoq = "(Some " + cTuple(fmt.Sprint(raw[0]), new(big.Int).SetBytes(raw[1:]).String()) + ")"
		}
	}
	tip, _ := b.BlockTip.Peek(ctx)
	{
		it, _ := b.BlockHashes.Iterate(ctx, nil)
		for ; it.Valid(); it.Next() {
			kv, _ := it.KeyValue()
			hashes = append(hashes, cTuple(fmt.Sprint(kv.Key), cB(kv.Value)))
		}
		it.Close()
	}
	{
		it, _ := b.Deposited.Iterate(ctx, nil)
		for ; it.Valid(); it.Next() {
			kv, _ := it.KeyValue()
			deposited = append(deposited, cTuple(new(big.Int).SetBytes(kv.Key.K1()).String(), fmt.Sprint(kv.Key.K2()), fmt.Sprint(kv.Value)))
		}
		it.Close()
	}
	nonce, _ := b.EthTxNonce.Peek(ctx)
	{
		it, _ := b.Withdrawals.Iterate(ctx, nil)
		for ; it.Valid(); it.Next() {
			kv, _ := it.KeyValue()
			d.wds[kv.Key] = kv.Value
			rc := "None"
			if kv.Value.Receipt != nil {
				rc = "(Some " + cRcpt(kv.Value.Receipt) + ")"
			}
			wds = append(wds, cTuple(fmt.Sprint(kv.Key), cTuple(fmt.Sprint(w.wdAddrID(kv.Value.Address)), fmt.Sprint(kv.Value.RequestAmount),
				fmt.Sprint(kv.Value.MaxTxPrice), fmt.Sprint(int(kv.Value.Status)), rc)))
		}
		it.Close()
	}
	pid, _ := b.ProcessID.Peek(ctx)
	{
		it, _ := b.Processing.Iterate(ctx, nil)
		for ; it.Valid(); it.Next() {
			kv, _ := it.KeyValue()
			var txids, outs []string
			for _, t := range kv.Value.Txid {
				txids = append(txids, cB(t))
			}
			for _, o := range kv.Value.Output {
				outs = append(outs, cNs(o.Values))
			}
			procs = append(procs, cTuple(fmt.Sprint(kv.Key), cTuple(cList(txids), cList(outs), cNs(kv.Value.Withdrawals), fmt.Sprint(kv.Value.Fee))))
		}
		it.Close()
	}
	q, _ := b.EthTxQueue.Get(ctx)
	d.bq = q
	for _, x := range q.Deposits {
		qdep = append(qdep, cTuple(cB(x.Address), cB(x.Txid), fmt.Sprint(x.Txout), fmt.Sprint(x.Amount), fmt.Sprint(x.Tax)))
	}
	for _, x := range q.PaidWithdrawals {
		qpaid = append(qpaid, cTuple(fmt.Sprint(x.Id), cRcpt(x.Receipt)))
	}
	last := d.rel.LastElected.Unix() - timeBase
	d.coq = "(mkBD " + strings.Join([]string{
		cTuple(w.addrOf(d.rel.Proposer), cList(mapS(d.rel.Voters, w.addrOf)), fmt.Sprint(d.rel.Epoch), fmt.Sprintf("(%d)%%Z", last), cBool(d.rel.ProposerAccepted)),
		fmt.Sprint(d.seq), cList(voters), cList(mapS(d.queue.OnBoarding, w.addrOf)), cList(mapS(d.queue.OffBoarding, w.addrOf)),
		cList(pubkeys), cB(randao),
		cTuple(fmt.Sprint(bp.ConfirmationNumber), fmt.Sprint(bp.MinDepositAmount), fmt.Sprint(bp.DepositTaxRate), fmt.Sprint(bp.MaxDepositTax)),
		pkCoq, fmt.Sprint(tip), cList(hashes), cList(deposited), fmt.Sprint(nonce), cList(wds), fmt.Sprint(pid), cList(procs),
		fmt.Sprint(q.BlockNumber), cList(qdep), cList(qpaid), cNs(q.RejectedWithdrawals)}, " ") + ")"
	return d
}
