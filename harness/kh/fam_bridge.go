package main

// Family "bridge", part 3: history generator over the real relayer + bitcoin keepers, with
// implementation-side monitors for C01, C02, C03, C05, C06, C16.

import (
	"fmt"

	"cosmossdk.io/collections"
	"math/big"
	"strings"
	"time"

	"github.com/btcsuite/btcd/btcutil"
	sdk "github.com/cosmos/cosmos-sdk/types"
	"github.com/ethereum/go-ethereum/common"
	ethtypes "github.com/ethereum/go-ethereum/core/types"
	"github.com/ethereum/go-ethereum/core/types/goattypes"
	bitcoinkeeper "github.com/goatnetwork/goat/x/bitcoin/keeper"
	bitcointypes "github.com/goatnetwork/goat/x/bitcoin/types"
	relayerkeeper "github.com/goatnetwork/goat/x/relayer/keeper"
	relayertypes "github.com/goatnetwork/goat/x/relayer/types"
)

func init() {
	families["bridge"] = &Family{Requires: "Model.BtcParams Model.Bridge Cases.BridgeRun", CaseType: "bcase", Run: runBridge}
}

var brMasks = map[string]string{
	//       0 rel 1 seq/randao 2 voters 3 pubkeys 4 params 5 chain 6 deposited 7 wd 8 proc 9 queue 10 class 11 txs
	//       (derived: 12 group invariant with bit 2, 13 notices with bit 7, 14 threshold table with bit 0)
	"all": "111111111111",
	"C01": "111111111110",
	"C02": "111111111110",
	"C03": "000011100111",
	"C04": "000001111111", // every use of a merkle proof: deposits and withdrawal finalisation
	"C05": "000000011111",
	"C06": "000001100111",
	"C16": "111000000010",
	"C17": "000011111111", // deposit acceptance and withdrawal-address decoding as the bridge uses them
	"C18": "111111111111",
	"C19": "111111111111",
	"C20": "000011100111", // parameters, and what a deposit credits under them (dequeued transactions)
}

func runBridge(rng *Rng, n int, st *Stats, param string) ([]string, []any) {
	focus, only, nops := "all", -1, 45
	for _, kv := range strings.Split(param, ",") {
		if strings.HasPrefix(kv, "proj=") {
			focus = kv[5:]
		}
		if strings.HasPrefix(kv, "only=") {
			fmt.Sscan(kv[5:], &only)
		}
		if strings.HasPrefix(kv, "ops=") {
			fmt.Sscan(kv[4:], &nops)
		}
	}
	mask, ok := brMasks[focus]
	if !ok {
		mask = brMasks["all"]
	}
	var cases []string
	var replays []any
	seen := map[string]bool{}
	for ci := 0; ci < n; ci++ {
		r := rng.Fork(uint64(ci))
		if only >= 0 && ci != only {
			continue
		}
		w := setupBridge(r, st, ci)
		w.focus = focus
		w.ci = ci
		w.history(nops)
		sig := w.sig.String()
		if !seen[sig] {
			seen[sig] = true
			st.Distinct++
		}
		cases = append(cases, finalizeIDs(cTuple(maskCoq(mask), w.initCoq, cList(w.ops))))
		replays = append(replays, map[string]any{"family": "bridge", "case": ci, "focus": focus, "ops": w.recs})
		st.Sample(map[string]any{"case": ci, "first_ops": firstN(w.recs, 6)})
	}
	return cases, replays
}

type pendingDeposit struct {
	tx      *btcTx
	version uint32
	key     *brKey
	evm     []byte
	vout    uint32
	tweak   []byte
	height  uint64
	index   int
}

type pendingWd struct {
	pid    uint64
	txs    []*btcTx
	ids    []uint64
	mined  map[int][2]uint64 // candidate index -> (height, tx index)
}

// nearMiss returns a script that differs from sc in one structural detail only (witness version opcode,
// push opcode, one bit of the program, length): what a careless or hostile wallet / proposer could produce.
func nearMiss(r *Rng, sc []byte) ([]byte, string) {
	out := append([]byte{}, sc...)
	if len(out) < 3 {
		return out, "same"
	}
	switch r.Intn(6) {
	case 0, 1: // other witness version, same program
		if out[0] == 0 {
			out[0] = byte(0x51 + r.Intn(16))
		} else {
			out[0] = []byte{0x00, 0x52, 0x60}[r.Intn(3)]
		}
		return out, "witness-version"
	case 2: // other push opcode
		out[1] = []byte{0x14, 0x20, 0x21, 0x13, 0x4c}[r.Intn(5)]
		if out[1] == sc[1] {
			out[1]++
		}
		return out, "push-opcode"
	case 3:
		out[2+r.Intn(len(out)-2)] ^= 1 << uint(r.Intn(8))
		return out, "program-bit"
	case 4:
		return out[:len(out)-1], "truncated"
	default:
		return append(out, 0), "extended"
	}
}

// thresholdTable records what the real Relayer.Threshold() answers for a range of group sizes; the model's
// threshold is compared with it inside Coq.  A vote bitmap has 256 positions, so no proposal of a group
// with more than 384 voters can be accepted at all: case 0 of a run sweeps 0..1023 completely, the other
// cases sample.
func (w *brWorld) thresholdTable() {
	var ns []int
	if w.ci == 0 {
		for n := 0; n < 1024; n++ {
			ns = append(ns, n)
		}
	} else {
		for i := 0; i < 12; i++ {
			ns = append(ns, w.r.Intn(400))
		}
	}
	var rows []string
	for _, n := range ns {
		rel := relayertypes.Relayer{Voters: make([]string, n)}
		rows = append(rows, cTuple(fmt.Sprint(n), fmt.Sprint(rel.Threshold())))
	}
	w.ops = append(w.ops, cTuple("(RThr "+cList(rows)+")", cTuple("0", "[]")))
	w.recs = append(w.recs, lkOpRec{Kind: "threshold-table", Args: map[string]any{"sizes": len(ns)}})
	w.st.Count("threshold-table-rows")
}

func (w *brWorld) msgSrvB() bitcointypes.MsgServer { return bitcoinkeeper.NewMsgServerImpl(w.e.Bitcoin) }
func (w *brWorld) msgSrvR() relayertypes.MsgServer { return relayerkeeper.NewMsgServerImpl(w.e.Relayer) }

func (w *brWorld) proposerField() (string, string) {
	rel := w.relayer()
	if w.r.Chance(4) {
		o := w.voters[w.r.Intn(len(w.voters))]
		return o.AddrStr, cAddr20(o.Addr)
	}
	return rel.Proposer, w.addrOf(rel.Proposer)
}

func (w *brWorld) violate(prop, mon, key, what string) { w.st.Violate(prop, mon, key, what, w.recs) }

// after a voted message: C01 / C02 monitors
func (w *brWorld) afterVoted(kind string, cls int, sp *voteSpec, method string, data []byte, relBefore relayertypes.Relayer, seqBefore uint64, propField string, resend func() int) {
	w.st.Chk("C01-quorum")
	seqAfter := w.seq()
	if cls == 0 {
		if propField != relBefore.Proposer || !w.quorumOK(sp, method, data, relBefore, seqBefore) {
			w.violate("C01", "quorum", "accepted-without-quorum", fmt.Sprintf("%s accepted although the vote (%s) is not a genuine 2/3 quorum over this action for the current chain/epoch/sequence", kind, sp.Desc))
		}
		w.st.Chk("C02-seq")
		if seqAfter != seqBefore+1 {
			w.violate("C02", "seq", "seq-not-plus-one", fmt.Sprintf("%s accepted but sequence went %d -> %d", kind, seqBefore, seqAfter))
		}
		w.accepted = append(w.accepted, acceptedVote{replay: func() (int, string) { return resend(), kind }, desc: kind})
	} else if seqAfter != seqBefore {
		w.violate("C02", "seq", "seq-moved-on-failure", fmt.Sprintf("%s failed but sequence went %d -> %d", kind, seqBefore, seqAfter))
	}
}

func (w *brWorld) history(nops int) {
	r := w.r
	var pendDeps []*pendingDeposit   // created, waiting to be mined
	var minedDeps []*pendingDeposit  // mined (maybe not yet voted)
	var mempool []*btcTx
	wdProc := map[uint64]*pendingWd{}
	nextWid := uint64(1 + r.Intn(3))
	voted := func() uint64 { t, _ := w.e.Bitcoin.BlockTip.Peek(w.e.Ctx); return t }
	srv := w.msgSrvB()
	w.thresholdTable()
	var matureDep, forceDep *pendingDeposit
	matureBudget := 0

	mine := func() {
		h := w.mined + 1
		var txids [][]byte
		nfill := r.Intn(6)
		cb := dsha(r.Bytes(16))
		txids = append(txids, cb)
		// sometimes a deposit IS the coinbase transaction
		var cbDep *pendingDeposit
		if len(pendDeps) > 0 && r.Chance(12) {
			cbDep = pendDeps[0]
			pendDeps = pendDeps[1:]
			txids[0] = cbDep.tx.Txid
		}
		// a block whose only transaction is that deposit: its merkle path is empty
		lone := cbDep != nil && r.Chance(45)
		if lone {
			nfill = 0
			w.st.Count("block-with-a-single-transaction")
		}
		for i := 0; i < nfill; i++ {
			txids = append(txids, dsha(r.Bytes(16)))
		}
		var placed []*pendingDeposit
		type placedTx struct {
			tx  *btcTx
			idx int
		}
		var ptx []placedTx
		if !lone {
			for _, d := range pendDeps {
				d.index = len(txids)
				txids = append(txids, d.tx.Txid)
				placed = append(placed, d)
			}
			pendDeps = nil
			for _, t := range mempool {
				ptx = append(ptx, placedTx{t, len(txids)})
				txids = append(txids, t.Txid)
			}
			mempool = nil
			if len(ptx) > 0 && len(txids)%2 == 1 {
				w.st.Count("payout-last-in-odd-sized-block")
			}
		}
		blk := mkBlock(r, h, txids)
		w.blocks[h] = blk
		w.mined = h
		if cbDep != nil {
			cbDep.height, cbDep.index = h, 0
			minedDeps = append(minedDeps, cbDep)
			if lone && matureDep == nil && r.Chance(60) {
				// let this coinbase deposit mature: 100 more blocks get mined and voted, then it is submitted
				matureDep, matureBudget = cbDep, 20
				w.st.Count("coinbase-deposit-taken-to-maturity")
			}
		}
		for _, d := range placed {
			d.height = h
			minedDeps = append(minedDeps, d)
		}
		for _, p := range ptx {
			for _, pw := range wdProc {
				for ci, c := range pw.txs {
					if string(c.Txid) == string(p.tx.Txid) {
						pw.mined[ci] = [2]uint64{h, uint64(p.idx)}
					}
				}
			}
		}
	}

	for step := 0; step < nops; step++ {
		w.e.Ctx = w.e.Ctx.WithBlockHeight(w.height).WithBlockTime(w.now)
		choice := r.Intn(100)
		if matureDep != nil {
			switch {
			case voted() >= matureDep.height+100:
				forceDep, matureDep = matureDep, nil
				choice = 30 // submit it now
			case matureBudget == 0:
				matureDep = nil
			default:
				matureBudget--
				for w.mined < voted()+16 {
					mine()
				}
				choice = 0 // vote the next batch of block hashes
			}
		}
		switch {
		// ------------------------------------------------ new block hashes
		case choice < 14:
			if w.mined == voted() || r.Chance(30) {
				mine()
				if r.Chance(40) {
					mine()
				}
			}
			start := voted() + 1
			if r.Chance(8) {
				start += uint64(r.Intn(3)) - 1
			}
			var hashes [][]byte
			for h := start; h <= w.mined && len(hashes) < 16; h++ {
				if b, ok := w.blocks[h]; ok {
					hashes = append(hashes, b.Hash)
				} else {
					hashes = append(hashes, dsha(r.Bytes(4)))
				}
			}
			if r.Chance(3) {
				hashes = append(hashes, r.Bytes(31))
			}
			if r.Chance(6) {
				hashes = nil // an empty batch: still a voted proposal
			}
			tipBefore := voted()
			storedBefore := map[uint64][]byte{}
			for hgt := start; hgt > 0 && hgt+3 > start; hgt-- {
				if old, err := w.e.Bitcoin.BlockHashes.Get(w.e.Ctx, hgt); err == nil {
					storedBefore[hgt] = old
				}
			}
			data := append(make([]byte, 8), le64b(start)...)
			for _, h := range hashes {
				data = append(data, h...)
			}
			w.votedOp("hashes", bitcointypes.NewBlocksMethodSigName, data, func(prop string, v *relayertypes.Votes) (func() error, string) {
				msg := &bitcointypes.MsgNewBlockHashes{Proposer: prop, Vote: v, StartBlockNumber: start, BlockHash: hashes}
				return func() error { _, err := srv.NewBlockHashes(w.e.Ctx, msg); return err },
					fmt.Sprintf("BHashes %%s %%s %d %s", start, cList(mapS(hashes, cB)))
			}, func(cls int) {
				if cls == 0 {
					w.st.Chk("C06-hashes-gap-free")
					tipAfter := voted()
					if start != tipBefore+1 || tipAfter != tipBefore+uint64(len(hashes)) {
						w.violate("C06", "hashes", "hash-gap", fmt.Sprintf("block-hash batch starting at %d accepted on tip %d; tip is now %d", start, tipBefore, tipAfter))
					}
					for hgt, old := range storedBefore {
						if cur, err := w.e.Bitcoin.BlockHashes.Get(w.e.Ctx, hgt); err != nil || string(cur) != string(old) {
							w.violate("C06", "hashes", "hash-rewritten", fmt.Sprintf("voted hash of height %d was rewritten", hgt))
						}
					}
					for i, h := range hashes {
						w.enqHashes = append(w.enqHashes, fmt.Sprintf("%d:%x", start+uint64(i), h))
					}
				}
			})
		// ------------------------------------------------ create a deposit (bitcoin side only)
		case choice < 24:
			key := w.curKey
			if r.Chance(25) {
				key = w.keys[r.Intn(len(w.keys))]
			}
			evm := r.Bytes(20)
			bp, _ := w.e.Bitcoin.Params.Get(w.e.Ctx)
			val := int64(bp.MinDepositAmount) + int64(r.Intn(30000)) - int64(r.Intn(3))*500
			if r.Chance(20) {
				val = []int64{999, 1000, 9999, 10000, 10001, 20000, 100000000}[r.Intn(7)]
			}
			if sd := r.Side(11); bp.DepositTaxRate > 0 && bp.MinDepositAmount <= 10000 && sd.Chance(30) {
				val = []int64{10000, 10000, 10001, 9999}[sd.Intn(4)] // the value from which the tax applies
				w.st.Count("deposit-at-the-tax-threshold")
			}
			version := uint32(0)
			if key.Type == 0 && r.Chance(40) {
				version = 1
			}
			var outs []btcOut
			d := &pendingDeposit{version: version, key: key, evm: evm}
			if version == 0 {
				sc, tw := depositScriptV0(key, evm)
				d.tweak = tw
				if r.Chance(10) {
					var how string
					sc, how = nearMiss(r, sc)
					w.st.Count("deposit-output-near-miss:" + how)
				}
				outs = []btcOut{{val, sc}}
				if r.Chance(30) {
					outs = append([]btcOut{{int64(r.Intn(5000)), scriptP2WPKH(r.Bytes(20))}}, outs...)
					d.vout = 1
				}
			} else {
				magic := bp.DepositMagicPrefix
				if r.Chance(8) {
					magic = []byte("XXXX")
				}
				pay := scriptP2WPKH(key.H160)
				if r.Chance(20) {
					var how string
					pay, how = nearMiss(r, pay)
					w.st.Count("deposit-output-near-miss:" + how)
				}
				outs = []btcOut{{val, pay}, {0, scriptOpReturn(append(append([]byte{}, magic...), evm...))}}
				switch r.Intn(8) {
				case 0: // change behind the data output
					outs = append(outs, btcOut{int64(1000 + r.Intn(5000)), scriptP2WPKH(r.Bytes(20))})
					w.st.Count("v1-deposit-with-3-outputs:change")
				case 1: // a second data output naming another EVM address
					outs = append(outs, btcOut{0, scriptOpReturn(append(append([]byte{}, magic...), r.Bytes(20)...))})
					w.st.Count("v1-deposit-with-3-outputs:second-data-output")
				}
			}
			d.tx = mkTx(r, outs, r.Intn(2))
			w.allTxOuts[string(d.tx.Txid)] = outs
			pendDeps = append(pendDeps, d)
			w.sig.WriteString("d")
			continue
		// ------------------------------------------------ submit deposits
		case choice < 36:
			if len(minedDeps) == 0 {
				continue
			}
			nd := 1 + r.Intn(3)
			forced := false
			if forceDep != nil {
				nd = 1 // the matured coinbase deposit on its own, as mined
			}
			var ds []*bitcointypes.Deposit
			var dsCoq []string
			heights := map[uint64]bool{}
			var picked []*pendingDeposit
			for i := 0; i < nd; i++ {
				d := minedDeps[r.Intn(len(minedDeps))]
				if i == 0 && forceDep != nil {
					d, forceDep = forceDep, nil
					forced = true
				}
				if sd := r.Side(uint64(13 + i)); !forced && i == 0 && sd.Chance(55) {
					// a deposit that can be credited: its block is voted, its key registered, not credited yet
					var good []*pendingDeposit
					for _, c := range minedDeps {
						has, _ := w.e.Relayer.HasPubkey(w.e.Ctx, relayertypes.EncodePublicKey(c.key.Pub))
						done, _ := w.e.Bitcoin.Deposited.Has(w.e.Ctx, collections.Join(c.tx.Txid, c.vout))
						if c.height <= voted() && has && !done && (c.index > 0 || voted() >= c.height+100) {
							good = append(good, c)
						}
					}
					if len(good) > 0 {
						d = good[sd.Intn(len(good))]
						forced = sd.Chance(75) // mostly presented as mined
						if nd > 1 && sd.Chance(60) {
							nd = 1
						}
						w.st.Count("deposit-submission-of-a-creditable-deposit")
					}
				}
				if i > 0 && r.Chance(25) {
					d = picked[0] // duplicate inside the batch
				}
				picked = append(picked, d)
				blk := w.blocks[d.height]
				idx := uint32(d.index)
				proof := blk.proof(d.index)
				raw := d.tx.Raw
				evm := d.evm
				key := d.key
				vout := d.vout
				version := d.version
				depth := len(proof) / 32
				sel := r.Intn(40)
				if forced && r.Chance(70) {
					sel = 39 // presented exactly as mined
				}
				switch sel {
				case 0:
					idx = uint32(d.index) + 1<<uint(depth) // aliased position
				case 1:
					idx = 1 << 31
				case 2:
					if len(proof) >= 32 {
						proof = proof[:len(proof)-32]
					}
				case 3:
					evm = r.Bytes(20)
				case 4:
					key = w.keys[r.Intn(len(w.keys))]
				case 5:
					vout = vout + 1
				case 6:
					version = 1 - version
				case 7:
					raw = append(append([]byte{}, raw...), 0)
				case 8:
					if d.index == 0 {
						idx = 1 << uint(depth) // coinbase presented elsewhere
					}
				}
				if depth == 0 && r.Chance(35) && !(forced && sel == 39) {
					idx = uint32(1 + r.Intn(3)) // the only transaction of its block, presented elsewhere (empty path)
					w.st.Count("single-tx-block-deposit-at-other-position")
				}
				var tweakCoq = "None"
				if key.Type == 1 {
					_, tw := depositScriptV0(key, evm)
					if len(evm) == 20 {
						tweakCoq = "(Some " + cB(tw) + ")"
					}
				}
				parsed, _ := parseOuts(raw)
				ds = append(ds, &bitcointypes.Deposit{Version: version, BlockNumber: d.height, TxIndex: idx, NoWitnessTx: raw, OutputIndex: vout,
					IntermediateProof: proof, EvmAddress: evm, RelayerPubkey: key.Pub})
				dsCoq = append(dsCoq, fmt.Sprintf("(mkDeposit %d %d %d %s %s %d %s %s (Some %s) %s)", version, d.height, idx, cB(raw), parsed, vout, cB(proof), cB(evm), key.coq(), tweakCoq))
				heights[d.height] = true
			}
			var hdrs []*bitcointypes.BlockHeader
			var hdrCoq []string
			for h := range heights {
				raw := w.blocks[h].Header
				if r.Chance(3) {
					raw = append([]byte{}, raw...)
					raw[40] ^= 1
				}
				hdrs = append(hdrs, &bitcointypes.BlockHeader{Height: h, Raw: raw})
			}
			// deterministic order
			for i := 0; i < len(hdrs); i++ {
				for j := i + 1; j < len(hdrs); j++ {
					if hdrs[j].Height < hdrs[i].Height {
						hdrs[i], hdrs[j] = hdrs[j], hdrs[i]
					}
				}
			}
			if r.Chance(3) && len(hdrs) > 0 {
				hdrs = append(hdrs, hdrs[0])
			}
			for _, h := range hdrs {
				hdrCoq = append(hdrCoq, cTuple(fmt.Sprint(h.Height), cB(h.Raw)))
			}
			prop, propCoq := w.proposerField()
			before := w.dump()
			msg := &bitcointypes.MsgNewDeposits{Proposer: prop, BlockHeaders: hdrs, Deposits: ds}
			cls, _ := w.e.Tx(func(c sdk.Context) error { _, err := srv.NewDeposits(c, msg); return err })
			w.addOp(fmt.Sprintf("(BDeposits %s %s %s)", propCoq, cList(hdrCoq), cList(dsCoq)), cls, nil, lkOpRec{Kind: "deposits", Args: map[string]any{"n": len(ds), "proposer": prop}})
			w.sig.WriteString(fmt.Sprintf("D%d%d", len(ds), cls))
			if forced && len(picked) > 0 {
				if picked[0].index == 0 {
					w.st.Count(fmt.Sprintf("matured-coinbase-deposit-submitted:class=%d", cls))
				} else {
					w.st.Count(fmt.Sprintf("creditable-deposit-presented-as-mined:class=%d", cls))
				}
			}
			w.monitorDeposits(cls, before, ds, hdrs, prop)
		// ------------------------------------------------ withdrawals: user requests
		case choice < 46:
			var q goattypes.BridgeRequests
			var wC, rC, cC []string
			for i, k := 0, r.Intn(3); i < k; i++ {
				addr, script := w.genBtcAddress()
				id := nextWid
				nextWid++
				if r.Chance(3) && id > 2 {
					id -= 2 // id reuse is an execution-layer fault; kept rare (environment assumption of C05)
					nextWid--
					continue
				}
				amt := uint64(20000 + r.Intn(100000))
				price := uint64(1 + r.Intn(50))
				q.Withdraws = append(q.Withdraws, &goattypes.WithdrawalRequest{Id: id, Amount: amt, TxPrice: price, Address: addr})
				sc := "None"
				if script != nil {
					sc = "(Some " + cB(script) + ")"
				}
				wC = append(wC, cTuple(fmt.Sprint(id), fmt.Sprint(amt), fmt.Sprint(price), fmt.Sprint(w.wdAddrID(addr)), sc))
			}
			known := w.knownWids()
			if len(known) > 0 || r.Chance(5) {
				for i, k := 0, r.Intn(2); i < k; i++ {
					id := pickWid(r, known, nextWid)
					p := uint64(1 + r.Intn(80))
					q.ReplaceByFees = append(q.ReplaceByFees, &goattypes.ReplaceByFeeRequest{Id: id, TxPrice: p})
					rC = append(rC, cTuple(fmt.Sprint(id), fmt.Sprint(p)))
				}
				for i, k := 0, r.Intn(2); i < k; i++ {
					id := pickWid(r, known, nextWid)
					q.Cancel1s = append(q.Cancel1s, &goattypes.Cancel1Request{Id: id})
					cC = append(cC, fmt.Sprint(id))
				}
			}
			var tC, nC, mC []string
			if r.Chance(15) {
				x := [2]uint64{genU64(r), genU64(r)}
				if r.Chance(40) { // around the 100 % boundary, with a cap that does not bite
					x = [2]uint64{[]uint64{9999, 10000, 10000, 10001, 5000}[r.Intn(5)], []uint64{0, 100000000, 1 << 40}[r.Intn(3)]}
				}
				q.DepositTax = append(q.DepositTax, &goattypes.DepositTaxRequest{Rate: x[0], Max: x[1]})
				tC = append(tC, cTuple(fmt.Sprint(x[0]), fmt.Sprint(x[1])))
			}
			if r.Chance(8) {
				x := uint64(r.Intn(4))
				q.Confirmation = append(q.Confirmation, &goattypes.ConfirmationNumberRequest{Number: x})
				nC = append(nC, fmt.Sprint(x))
			}
			if r.Chance(10) {
				x := []uint64{0, 999, 1000, 1001, 5000, 30000}[r.Intn(6)]
				if sd := r.Side(17); sd.Chance(14) {
					x = 1<<63 + uint64(sd.Intn(1000)) // in range for the request path; no deposit can reach it
					w.st.Count("min-deposit-request-with-the-top-bit-set")
				}
				q.MinDeposit = append(q.MinDeposit, &goattypes.MinDepositRequest{Satoshi: x})
				mC = append(mC, fmt.Sprint(x))
			}
			before := w.dump()
			cls, _ := w.e.Tx(func(c sdk.Context) error { return w.e.Bitcoin.ProcessBridgeRequest(c, q) })
			w.addOp(fmt.Sprintf("(BBridgeReq (mkBR %s %s %s (mkPR %s %s %s)))", cList(wC), cList(rC), cList(cC), cList(tC), cList(nC), cList(mC)), cls, nil,
				lkOpRec{Kind: "bridgereq", Args: map[string]any{"withdraws": len(q.Withdraws), "rbf": len(q.ReplaceByFees), "cancel": len(q.Cancel1s)}})
			w.sig.WriteString(fmt.Sprintf("Q%d%d%d%d", len(q.Withdraws), len(q.ReplaceByFees), len(q.Cancel1s), cls))
			if cls == 0 {
				for _, x := range q.Withdraws {
					if _, err := w.decodeRef(x.Address); err != nil {
						w.enqRej = append(w.enqRej, fmt.Sprint(x.Id))
					}
				}
			}
			w.monitorWd(before, "bridge request")
		// ------------------------------------------------ process withdrawal
		case choice < 56:
			cands := w.widsWithStatus(1, 3)
			if len(cands) == 0 {
				continue
			}
			k := 1 + r.Intn(minInt(3, len(cands)))
			var ids []uint64
			for i := 0; i < k; i++ {
				ids = append(ids, cands[r.Intn(len(cands))])
			}
			if r.Chance(70) {
				ids = dedupU64(ids)
			}
			if r.Chance(4) {
				ids = append(ids, nextWid+5)
			}
			tx, fee := w.buildPayout(ids, r.Chance(50), 0)
			raw := tx.Raw
			parsed, _ := parseOuts(raw)
			data := append(append(le64b(ids...), sha256Sum(raw)...), le64b(fee)...)
			before := w.dump()
			pidBefore, _ := w.e.Bitcoin.ProcessID.Peek(w.e.Ctx)
			w.votedOp("process", bitcointypes.ProcessWithdrawalMethodSigName, data, func(prop string, v *relayertypes.Votes) (func() error, string) {
				msg := &bitcointypes.MsgProcessWithdrawal{Proposer: prop, Vote: v, Id: ids, NoWitnessTx: raw, TxFee: fee}
				return func() error { _, err := srv.ProcessWithdrawal(w.e.Ctx, msg); return err },
					fmt.Sprintf("BProcess %%s %%s %s %s %s %d", cB(raw), parsed, cNs(ids), fee)
			}, func(cls int) {
				if cls == 0 {
					wdProc[pidBefore] = &pendingWd{pid: pidBefore, txs: []*btcTx{tx}, ids: ids, mined: map[int][2]uint64{}}
					if r.Chance(70) {
						mempool = append(mempool, tx)
					}
					w.monitorProcess(before, ids, tx, fee)
				}
				w.monitorWd(before, "process")
			})
		// ------------------------------------------------ replace withdrawal
		case choice < 62:
			if len(wdProc) == 0 {
				continue
			}
			pw := pickProc(r, wdProc)
			bump := uint64(1 + r.Intn(300))
			if r.Chance(22) {
				bump = 0
			}
			tx, fee := w.buildPayout(pw.ids, r.Chance(50), w.procFee(pw.pid)+bump)
			if bump == 0 {
				fee = w.procFee(pw.pid) // another transaction at exactly the fee already voted
				w.st.Count("replace:equal-fee")
			}
			if r.Chance(5) {
				tx = pw.txs[0]
			}
			pid := pw.pid
			if r.Chance(4) {
				pid += 7
			}
			raw := tx.Raw
			parsed, _ := parseOuts(raw)
			data := append(le64b(pid, fee), sha256Sum(raw)...)
			before := w.dump()
			w.votedOp("replace", bitcointypes.ReplaceWithdrawalMethodSigName, data, func(prop string, v *relayertypes.Votes) (func() error, string) {
				msg := &bitcointypes.MsgReplaceWithdrawal{Proposer: prop, Vote: v, Pid: pid, NewNoWitnessTx: raw, NewTxFee: fee}
				return func() error { _, err := srv.ReplaceWithdrawal(w.e.Ctx, msg); return err },
					fmt.Sprintf("BReplace %%s %%s %d %s %s %d", pid, cB(raw), parsed, fee)
			}, func(cls int) {
				if cls == 0 {
					pw.txs = append(pw.txs, tx)
					if r.Chance(70) {
						mempool = append(mempool, tx)
					}
					w.monitorProcess(before, pw.ids, tx, fee)
				}
				w.monitorWd(before, "replace")
			})
		// ------------------------------------------------ finalize withdrawal
		case choice < 70:
			if len(wdProc) == 0 {
				continue
			}
			pw := pickProc(r, wdProc)
			ci := r.Intn(len(pw.txs))
			loc, ok := pw.mined[ci]
			if !ok {
				if r.Chance(50) {
					mempool = append(mempool, pw.txs[ci])
					mine()
					loc, ok = pw.mined[ci]
				}
				if !ok {
					continue
				}
			}
			blk := w.blocks[loc[0]]
			txid := pw.txs[ci].Txid
			proof := blk.proof(int(loc[1]))
			idx := uint32(loc[1])
			hdr := blk.Header
			pid := pw.pid
			switch r.Intn(30) {
			case 0:
				txid = dsha(r.Bytes(5))
			case 1:
				idx += 1 << uint(len(proof)/32)
			case 2:
				pid++
			case 3:
				hdr = append([]byte{}, hdr...)
				hdr[3] ^= 1
			case 4:
				proof = append(append([]byte{}, proof...), r.Bytes(32)...)
			case 5, 6:
				idx += uint32(1+r.Intn(3)) << uint(len(proof)/32) // same low bits, another position
			case 7:
				idx |= 1 << 31
			}
			prop, propCoq := w.proposerField()
			before := w.dump()
			msg := &bitcointypes.MsgFinalizeWithdrawal{Proposer: prop, Pid: pid, Txid: txid, BlockNumber: loc[0], TxIndex: idx, IntermediateProof: proof, BlockHeader: hdr}
			cls, _ := w.e.Tx(func(c sdk.Context) error { _, err := srv.FinalizeWithdrawal(c, msg); return err })
			w.addOp(fmt.Sprintf("(BFinalize %s %d %s %d %d %s %s)", propCoq, pid, cB(txid), loc[0], idx, cB(proof), cB(hdr)), cls, nil,
				lkOpRec{Kind: "finalize", Args: map[string]any{"pid": pid, "height": loc[0], "index": idx}})
			w.sig.WriteString(fmt.Sprintf("F%d", cls))
			if cls == 0 {
				w.st.Chk("C05-paid-terms")
				// paid only on a proof of one of the voted candidates under a voted hash at its true position
				if voted() < loc[0] || string(txid) != string(pw.txs[ci].Txid) || idx != uint32(loc[1]) || pid != pw.pid {
					w.violate("C05", "paid-terms", "paid-without-proof", "withdrawal finalised without an SPV proof of a voted candidate under a voted block hash")
				}
				after := w.dump()
				for i, id := range pw.ids {
					wd := after.wds[id]
					if wd.Receipt == nil || wd.Receipt.Amount != uint64(pw.txs[ci].Outs[i].Value) || string(wd.Receipt.Txid) != string(txid) {
						w.violate("C05", "paid-terms", "paid-amount", fmt.Sprintf("withdrawal %d reported paid with an amount/txid that is not the confirmed candidate's output", id))
					}
					w.enqPaid = append(w.enqPaid, fmt.Sprintf("%d:%x:%d", id, txid, uint64(pw.txs[ci].Outs[i].Value)))
				}
				delete(wdProc, pw.pid)
			}
			w.monitorWd(before, "finalize")
		// ------------------------------------------------ approve cancellation
		case choice < 75:
			cands := w.widsWithStatus(3)
			var ids []uint64
			if len(cands) > 0 {
				for i, k := 0, 1+r.Intn(2); i < k; i++ {
					ids = append(ids, cands[r.Intn(len(cands))])
				}
			}
			if r.Chance(15) {
				known := w.knownWids()
				if len(known) > 0 {
					ids = append(ids, known[r.Intn(len(known))])
				}
			}
			if len(ids) == 0 {
				continue
			}
			prop, propCoq := w.proposerField()
			before := w.dump()
			msg := &bitcointypes.MsgApproveCancellation{Proposer: prop, Id: ids}
			cls, _ := w.e.Tx(func(c sdk.Context) error { _, err := srv.ApproveCancellation(c, msg); return err })
			w.addOp(fmt.Sprintf("(BCancel %s %s)", propCoq, cNs(ids)), cls, nil, lkOpRec{Kind: "cancel", Args: ids})
			w.sig.WriteString(fmt.Sprintf("C%d", cls))
			if cls == 0 {
				for _, id := range ids {
					w.enqRej = append(w.enqRej, fmt.Sprint(id))
				}
			}
			w.monitorWd(before, "approve cancellation")
		// ------------------------------------------------ new pubkey / consolidation
		case choice < 79:
			key := w.keys[r.Intn(len(w.keys))]
			data := relayertypes.EncodePublicKey(key.Pub)
			w.votedOp("pubkey", bitcointypes.NewPubkeyMethodSigName, data, func(prop string, v *relayertypes.Votes) (func() error, string) {
				msg := &bitcointypes.MsgNewPubkey{Proposer: prop, Vote: v, Pubkey: key.Pub}
				return func() error { _, err := srv.NewPubkey(w.e.Ctx, msg); return err },
					fmt.Sprintf("BPubkey %%s %%s (Some %s)", key.coq())
			}, func(cls int) {
				if cls == 0 {
					w.curKey = key
				}
			})
		case choice < 82:
			sc := scriptP2WPKH(w.curKey.H160)
			if w.curKey.Type == 1 {
				sc = scriptP2TR(w.curKey.Taproot)
			}
			if r.Chance(15) {
				sc = scriptP2WPKH(r.Bytes(20))
			}
			outs := []btcOut{{int64(50000 + r.Intn(100000)), sc}}
			if r.Chance(8) {
				outs = append(outs, btcOut{1000, sc})
			}
			tx := mkTx(r, outs, 1+r.Intn(3))
			parsed, _ := parseOuts(tx.Raw)
			w.votedOp("consolidation", bitcointypes.NewConsolidationMethodSigName, sha256Sum(tx.Raw), func(prop string, v *relayertypes.Votes) (func() error, string) {
				msg := &bitcointypes.MsgNewConsolidation{Proposer: prop, Vote: v, NoWitnessTx: tx.Raw}
				return func() error { _, err := srv.NewConsolidation(w.e.Ctx, msg); return err },
					fmt.Sprintf("BConsolidation %%s %%s %s %s", cB(tx.Raw), parsed)
			}, func(cls int) {})
		// ------------------------------------------------ hand-over
		case choice < 90:
			w.dequeue()
		// ------------------------------------------------ relayer membership and elections
		default:
			w.relayerOp()
		}
		if w.focus == "C02" && step == nops-1 {
			importKeepsSequence(w.e, w.st, w.recs)
		}
		if w.focus == "C18" && (r.Chance(12) || step == nops-1) {
			exportImportCheck(w.e, w.st, []string{"relayer", "bitcoin"}, w.recs)
		}
		if r.Chance(18) || step == nops-1 {
			d := w.dump()
			w.ops = append(w.ops, cTuple("(RDump "+d.coq+")", cTuple("0", "[]")))
			w.recs = append(w.recs, lkOpRec{Kind: "dump"})
			w.monitorGroup(d, "dump")
		}
		if r.Chance(30) {
			w.now = w.now.Add(time.Duration(1+r.Intn(40)) * time.Second)
			w.height++
		}
	}
}

// votedOp runs one voted message: builds the vote, executes through the real msg server inside a
// transaction wrapper, records the op for the model, runs the C01/C02 monitors and occasionally replays
// an earlier accepted vote verbatim.
func (w *brWorld) votedOp(kind, method string, data []byte, build func(prop string, v *relayertypes.Votes) (func() error, string), after func(cls int)) {
	r := w.r
	relBefore := w.relayer()
	seqBefore := w.seq()
	prop, propCoq := w.proposerField()
	v, vCoq, sp := w.genVote(method, data)
	if r.Chance(2) {
		v, vCoq = nil, "None"
	}
	run, opFmt := build(prop, v)
	exec := func() int {
		cls, _ := w.e.Tx(func(c sdk.Context) error {
			saved := w.e.Ctx
			w.e.Ctx = c
			defer func() { w.e.Ctx = saved }()
			return run()
		})
		return cls
	}
	cls := exec()
	opCoq := "(" + fmt.Sprintf(opFmt, propCoq, vCoq) + ")"
	w.addOp(opCoq, cls, nil, lkOpRec{Kind: kind, Args: map[string]any{"vote": sp.Desc, "marks": sp.Marks, "signers": sp.Signers, "bitmap_len": sp.BmLen, "proposer": prop}})
	w.sig.WriteString(fmt.Sprintf("%c%s%d", kind[0], sp.Desc[:2], cls))
	if v != nil {
		w.afterVoted(kind, cls, sp, method, data, relBefore, seqBefore, prop, func() int {
			c := exec()
			w.addOp(opCoq, c, nil, lkOpRec{Kind: kind + "-replayed"})
			return c
		})
	}
	after(cls)
	// C02: verbatim replay of an earlier accepted vote must be rejected
	if len(w.accepted) > 0 && r.Chance(25) {
		av := w.accepted[r.Intn(len(w.accepted))]
		w.st.Chk("C02-replay")
		if c, k := av.replay(); c == 0 {
			w.violate("C02", "replay", "replay-accepted", "a vote that was accepted before was accepted again when replayed verbatim ("+k+")")
		}
	}
}

func dedupU64(xs []uint64) []uint64 {
	seen := map[uint64]bool{}
	var out []uint64
	for _, x := range xs {
		if !seen[x] {
			seen[x] = true
			out = append(out, x)
		}
	}
	return out
}

func pickWid(r *Rng, known []uint64, next uint64) uint64 {
	if len(known) == 0 || r.Chance(5) {
		return next + 3
	}
	return known[r.Intn(len(known))]
}

func pickProc(r *Rng, m map[uint64]*pendingWd) *pendingWd {
	var keys []uint64
	for k := range m {
		keys = append(keys, k)
	}
	for i := 0; i < len(keys); i++ {
		for j := i + 1; j < len(keys); j++ {
			if keys[j] < keys[i] {
				keys[i], keys[j] = keys[j], keys[i]
			}
		}
	}
	return m[keys[r.Intn(len(keys))]]
}

func (w *brWorld) knownWids() []uint64 {
	var out []uint64
	it, _ := w.e.Bitcoin.Withdrawals.Iterate(w.e.Ctx, nil)
	defer it.Close()
	for ; it.Valid(); it.Next() {
		k, _ := it.Key()
		out = append(out, k)
	}
	return out
}

func (w *brWorld) widsWithStatus(sts ...int32) []uint64 {
	var out []uint64
	it, _ := w.e.Bitcoin.Withdrawals.Iterate(w.e.Ctx, nil)
	defer it.Close()
	for ; it.Valid(); it.Next() {
		kv, _ := it.KeyValue()
		for _, s := range sts {
			if int32(kv.Value.Status) == s {
				out = append(out, kv.Key)
			}
		}
	}
	return out
}

func (w *brWorld) procFee(pid uint64) uint64 {
	p, err := w.e.Bitcoin.Processing.Get(w.e.Ctx, pid)
	if err != nil {
		return 0
	}
	return p.Fee
}

// buildPayout builds a bitcoin transaction paying the given withdrawals (mostly within their terms).
func (w *brWorld) buildPayout(ids []uint64, change bool, minFee uint64) (*btcTx, uint64) {
	r := w.r
	var outs []btcOut
	minPrice := uint64(1 << 40)
	for _, id := range ids {
		wd, err := w.e.Bitcoin.Withdrawals.Get(w.e.Ctx, id)
		sc := scriptP2WPKH(r.Bytes(20))
		amt := uint64(10000)
		if err == nil {
			if s, e := w.decodeRef(wd.Address); e == nil {
				sc = s
			}
			amt = wd.RequestAmount - uint64(r.Intn(2000))
			if r.Chance(4) {
				amt = wd.RequestAmount + 1
			}
			if r.Chance(3) {
				sc = scriptP2WPKH(r.Bytes(20))
			}
			if wd.MaxTxPrice < minPrice {
				minPrice = wd.MaxTxPrice
			}
		}
		outs = append(outs, btcOut{int64(amt), sc})
	}
	if change {
		sc := scriptP2WPKH(w.curKey.H160)
		if w.curKey.Type == 1 {
			sc = scriptP2TR(w.curKey.Taproot)
		}
		if r.Chance(8) {
			sc = scriptP2WPKH(r.Bytes(20))
		} else if r.Chance(8) {
			var how string
			sc, how = nearMiss(r, sc)
			w.st.Count("change-output-near-miss:" + how)
		} else if sd := r.Side(31); sd.Chance(16) {
			// the relayer's own script with one header byte wrong (another witness version / push opcode)
			var how string
			for k := 0; k < 8; k++ {
				if c, h := nearMiss(sd, sc); h == "witness-version" || h == "push-opcode" {
					sc, how = c, h
					break
				}
			}
			if how != "" {
				w.st.Count("change-output-near-miss:" + how)
			}
		}
		outs = append(outs, btcOut{int64(r.Intn(100000)), sc})
		if r.Chance(4) {
			outs = append(outs, btcOut{5, sc})
		}
	}
	tx := mkTx(r, outs, r.Intn(2))
	if minPrice == 1<<40 {
		minPrice = 10
	}
	fee := minPrice * uint64(len(tx.Raw))
	switch r.Intn(12) {
	case 0:
		fee++ // just above the user's maximum
	case 1, 2, 3:
		fee = fee / 2
	case 4:
		fee = fee - uint64(r.Intn(len(tx.Raw)))
	}
	if fee < minFee {
		fee = minFee
	}
	if fee == 0 && r.Chance(90) {
		fee = 1
	}
	return tx, fee
}

// genBtcAddress returns an address string and (independently constructed) the script it encodes for
// regtest, or nil when it must be rejected (p2pk, foreign network, garbage).
func (w *brWorld) genBtcAddress() (string, []byte) {
	a, sc := w.genBtcAddress0()
	w.addrScripts[a] = sc
	return a, sc
}

func (w *brWorld) genBtcAddress0() (string, []byte) {
	r := w.r
	h20, h32 := r.Bytes(20), r.Bytes(32)
	switch r.Intn(13) {
	case 0:
		a, _ := btcutil.NewAddressPubKeyHash(h20, btcNet)
		return a.EncodeAddress(), scriptP2PKH(h20)
	case 1:
		a, _ := btcutil.NewAddressScriptHashFromHash(h20, btcNet)
		return a.EncodeAddress(), scriptP2SH(h20)
	case 2, 3, 4:
		a, _ := btcutil.NewAddressWitnessPubKeyHash(h20, btcNet)
		return a.EncodeAddress(), scriptP2WPKH(h20)
	case 5, 6:
		a, _ := btcutil.NewAddressWitnessScriptHash(h32, btcNet)
		return a.EncodeAddress(), scriptP2WSH(h32)
	case 7, 8:
		a, _ := btcutil.NewAddressTaproot(h32, btcNet)
		return a.EncodeAddress(), scriptP2TR(h32)
	case 9:
		k := mkBrKey(fmt.Sprint(r.U64()), 0)
		a, _ := btcutil.NewAddressPubKey(k.Raw, btcNet)
		return a.String(), nil // legacy pay-to-pubkey: rejected
	case 10:
		a, _ := btcutil.NewAddressWitnessPubKeyHash(h20, &mainNetParams)
		return a.EncodeAddress(), nil // foreign network
	case 11: // a valid address of this network wrapped in white space: not an address
		a, _ := btcutil.NewAddressWitnessPubKeyHash(h20, btcNet)
		return []string{" ", "\t", "\n", ""}[r.Intn(4)] + a.EncodeAddress() + []string{" ", "\n", "  "}[r.Intn(3)], nil
	default:
		return "not-an-address-" + fmt.Sprint(r.Intn(100)), nil
	}
}

var _ = big.NewInt
var _ = common.Address{}
var _ ethtypes.Transaction
