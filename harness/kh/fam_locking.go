package main

// Family "locking": block-structured histories through the real x/locking keeper
// (BeginBlocker / ProcessLockingRequest / EndBlocker / DequeueLockingModuleTx), with
// implementation-side monitors for C11 (ledger), C12 (reward ledger), C13 (real CometBFT
// ValidatorSet as acceptance oracle, top-K), C14 (tombstone permanence), C15 (delay, once).

import (
	"bytes"
	"encoding/hex"
	"fmt"
	"math/big"
	"sort"
	"strings"
	"time"

	"cosmossdk.io/core/comet"
	"cosmossdk.io/math"
	abci "github.com/cometbft/cometbft/abci/types"
	cmtsecp "github.com/cometbft/cometbft/crypto/secp256k1"
	cmtproto "github.com/cometbft/cometbft/proto/tendermint/types"
	cmttypes "github.com/cometbft/cometbft/types"
	"github.com/btcsuite/btcd/btcec/v2"
	"github.com/btcsuite/btcd/btcutil"
	"github.com/cosmos/cosmos-sdk/crypto/keys/secp256k1"
	sdk "github.com/cosmos/cosmos-sdk/types"
	"github.com/ethereum/go-ethereum/common"
	"github.com/ethereum/go-ethereum/core/types/goattypes"
	lockingtypes "github.com/goatnetwork/goat/x/locking/types"
)

func init() {
	families["locking"] = &Family{Requires: "Model.Locking Cases.LockingRun", CaseType: "lcase", Run: runLocking}
}

type lkVal struct {
	Addr   common.Address
	Pub64  [64]byte
	Pub33  []byte
	AddrN  *big.Int
	Pub33N *big.Int
}

func mkVal(seed string) *lkVal {
	pk := secp256k1.GenPrivKeyFromSecret([]byte(seed))
	pub33 := pk.PubKey().Bytes()
	p, err := btcec.ParsePubKey(pub33)
	if err != nil {
		panic(err)
	}
	var v lkVal
	copy(v.Pub64[:], p.SerializeUncompressed()[1:])
	v.Pub33 = pub33
	// independent derivation of the consensus address: RIPEMD160(SHA256(compressed key))
	v.Addr = common.BytesToAddress(btcutil.Hash160(pub33))
	v.AddrN = new(big.Int).SetBytes(v.Addr.Bytes())
	v.Pub33N = new(big.Int).SetBytes(pub33)
	return &v
}

func tokenOfDenom(d string) *big.Int {
	switch {
	case d == "btc":
		return big.NewInt(0)
	case d == "goat":
		return new(big.Int).SetBytes(goattypes.GoatTokenContract.Bytes())
	case strings.HasPrefix(d, "tkn:"):
		b, _ := hex.DecodeString(d[4:])
		return new(big.Int).SetBytes(b)
	}
	panic("denom " + d)
}

// model time unit = 1 millisecond, origin = timeBase (the harness produces whole milliseconds: some histories
// carry sub-second block times and land on / next to the maturity instant of a queued unlock);
// the zero time.Time (never jailed) maps to 0, like the model's initial value.
const timeBase = 1700000000 - 1000

func nsOf(t time.Time) *big.Int {
	if t.IsZero() {
		return big.NewInt(0)
	}
	if t.Nanosecond()%1000000 != 0 {
		panic("sub-millisecond time")
	}
	return big.NewInt(t.UnixMilli() - timeBase*1000)
}

func decRepr(d math.LegacyDec) *big.Int { return d.BigInt() } // 18-digit integer representation

// ---- comet info plumbing ----
type cmtVal struct {
	addr  []byte
	power int64
}

func (v cmtVal) Address() []byte { return v.addr }
func (v cmtVal) Power() int64    { return v.power }

type cmtEv struct {
	typ    comet.MisbehaviorType
	val    cmtVal
	height int64
	tm     time.Time
}

func (e cmtEv) Type() comet.MisbehaviorType { return e.typ }
func (e cmtEv) Validator() comet.Validator  { return e.val }
func (e cmtEv) Height() int64               { return e.height }
func (e cmtEv) Time() time.Time             { return e.tm }
func (e cmtEv) TotalVotingPower() int64     { return 0 }

type cmtEvList []cmtEv

func (l cmtEvList) Len() int                 { return len(l) }
func (l cmtEvList) Get(i int) comet.Evidence { return l[i] }

type cmtInfo struct {
	ev       cmtEvList
	proposer []byte
}

func (c cmtInfo) GetEvidence() comet.EvidenceList { return c.ev }
func (c cmtInfo) GetValidatorsHash() []byte       { return nil }
func (c cmtInfo) GetProposerAddress() []byte      { return c.proposer }
func (c cmtInfo) GetLastCommit() comet.CommitInfo { return nil }

// ---- state dump ----
func cZi(i math.Int) string {
	if i.IsNil() {
		return "0%Z"
	}
	return cZ(i.BigInt())
}
func cNb(b *big.Int) string { return fmt.Sprintf("@A:%040x@", b) } // address-like: replaced by an order-preserving small id
func cPk(b *big.Int) string { return fmt.Sprintf("@P:%x@", b) }  // opaque key: replaced by a small id

type lkDump struct {
	coq   string
	vals  map[string]lockingtypes.Validator
	set   map[string]uint64
	rank  [][2]string
	pool  lockingtypes.RewardPool
	queue lockingtypes.EthTxQueue
}

func udump(u *lockingtypes.Unlock) string {
	return cTuple(cN(u.Id)+"%N", cNb(new(big.Int).SetBytes(u.Token)), cNb(new(big.Int).SetBytes(u.Recipient)), cZi(u.Amount))
}

func dumpLocking(e *Env, watched []*lkVal) *lkDump {
	ctx := e.Ctx
	k := e.Locking
	d := &lkDump{vals: map[string]lockingtypes.Validator{}, set: map[string]uint64{}}
	var vals, index, rank, set, toks, thr, slashed, uq, qr, qu, accs []string
	{
		it, err := k.Validators.Iterate(ctx, nil)
		if err != nil {
			panic(err)
		}
		for ; it.Valid(); it.Next() {
			kv, _ := it.KeyValue()
			v := kv.Value
			d.vals[string(kv.Key)] = v
			var hold []string
			for _, c := range v.Locking {
				hold = append(hold, cTuple(cNb(tokenOfDenom(c.Denom)), cZi(c.Amount)))
			}
			vals = append(vals, cTuple(cNb(new(big.Int).SetBytes(kv.Key)),
				cTuple(cPk(new(big.Int).SetBytes(v.Pubkey)), cN(v.Power)+"%N", cList(hold), cZi(v.Reward), cZi(v.GasReward),
					fmt.Sprintf("%d%%N", int(v.Status)), fmt.Sprintf("(%d)%%Z", v.SigningInfo.Offset), fmt.Sprintf("(%d)%%Z", v.SigningInfo.Missed), cZ(nsOf(v.JailedUntil)))))
		}
		it.Close()
	}
	{
		it, _ := k.Locking.Iterate(ctx, nil)
		for ; it.Valid(); it.Next() {
			kv, _ := it.KeyValue()
			index = append(index, cTuple(cNb(tokenOfDenom(kv.Key.K1())), cNb(new(big.Int).SetBytes(kv.Key.K2())), cZi(kv.Value)))
		}
		it.Close()
	}
	{
		it, _ := k.PowerRanking.Iterate(ctx, nil)
		for ; it.Valid(); it.Next() {
			key, _ := it.Key()
			rank = append(rank, cTuple(cN(key.K1())+"%N", cNb(new(big.Int).SetBytes(key.K2()))))
			d.rank = append(d.rank, [2]string{fmt.Sprint(key.K1()), string(key.K2())})
		}
		it.Close()
	}
	{
		it, _ := k.ValidatorSet.Iterate(ctx, nil)
		for ; it.Valid(); it.Next() {
			kv, _ := it.KeyValue()
			set = append(set, cTuple(cNb(new(big.Int).SetBytes(kv.Key)), cN(kv.Value)+"%N"))
			d.set[string(kv.Key)] = kv.Value
		}
		it.Close()
	}
	{
		it, _ := k.Tokens.Iterate(ctx, nil)
		for ; it.Valid(); it.Next() {
			kv, _ := it.KeyValue()
			toks = append(toks, cTuple(cNb(tokenOfDenom(kv.Key)), cTuple(cN(kv.Value.Weight)+"%N", cZi(kv.Value.Threshold))))
		}
		it.Close()
	}
	if t, err := k.Threshold.Get(ctx); err == nil {
		for _, c := range t.List {
			thr = append(thr, cTuple(cNb(tokenOfDenom(c.Denom)), cZi(c.Amount)))
		}
	}
	{
		it, _ := k.Slashed.Iterate(ctx, nil)
		for ; it.Valid(); it.Next() {
			kv, _ := it.KeyValue()
			slashed = append(slashed, cTuple(cNb(tokenOfDenom(kv.Key)), cZi(kv.Value)))
		}
		it.Close()
	}
	pool, _ := k.RewardPool.Get(ctx)
	d.pool = pool
	{
		it, _ := k.UnlockQueue.Iterate(ctx, nil)
		for ; it.Valid(); it.Next() {
			kv, _ := it.KeyValue()
			var us []string
			for _, u := range kv.Value.Unlocks {
				us = append(us, udump(u))
			}
			uq = append(uq, cTuple(cZ(nsOf(kv.Key)), cList(us)))
		}
		it.Close()
	}
	q, _ := k.EthTxQueue.Get(ctx)
	d.queue = q
	for _, r := range q.Rewards {
		qr = append(qr, cTuple(cN(r.Id)+"%N", cNb(new(big.Int).SetBytes(r.Recipient)), cZi(r.Goat), cZi(r.Gas)))
	}
	for _, u := range q.Unlocks {
		qu = append(qu, udump(u))
	}
	nonce, _ := k.EthTxNonce.Peek(ctx)
	for _, w := range watched {
		if e.Acc.HasAccount(ctx, sdk.AccAddress(w.Addr.Bytes())) {
			accs = append(accs, cNb(w.AddrN))
		}
	}
	d.coq = "(mkSD " + strings.Join([]string{cList(vals), cList(index), cList(rank), cList(set), cList(toks), cList(thr), cList(slashed),
		cTuple(cZi(pool.Remain), cZi(pool.Goat), cZi(pool.Gas)), cList(uq), cList(qr), cList(qu), cN(nonce) + "%N", cList(accs)}, " ") + ")"
	return d
}

var lkMasks = map[string]string{
	//        0 pw/st 1 hold 2 rew 3 sign 4 idx 5 rank 6 set 7 tok 8 slash 9 pool 10 uq 11 queue 12 class 13 ups 14 deq
	//                                   15 derived collections consistent (ranking, index, thresholds; set after end-block)
	"all": "1111111111111111",
	"C11": "0100000010101010",
	"C12": "0010000001011010",
	"C13": "1000111100001101",
	"C14": "1101000010001100",
	"C15": "1000100000111010",
	"C07": "1111111111111111",
	"C18": "1111111111111111",
	"C19": "1111111111111110",
}

func maskCoq(m string) string {
	s := make([]string, len(m))
	for i, c := range m {
		s[i] = cBool(c == '1')
	}
	return cList(s)
}

type lkOpRec struct {
	Kind string `json:"op"`
	Args any    `json:"args,omitempty"`
	Cls  int    `json:"class"`
	Out  any    `json:"out,omitempty"`
}

// big amounts: dust .. 2^100
func genAmount(r *Rng) *big.Int {
	switch r.Intn(8) {
	case 0:
		return big.NewInt(int64(r.Intn(3)))
	case 1:
		return big.NewInt(int64(1 + r.Intn(100)))
	case 2:
		x := new(big.Int).Lsh(big.NewInt(1), uint(64+r.Intn(36)))
		return x.Add(x, big.NewInt(int64(r.Intn(1000))))
	case 3:
		return new(big.Int).SetUint64(r.U64() >> uint(r.Intn(40)))
	default:
		// around 1e18 multiples: produce interesting powers
		x := new(big.Int).SetUint64(uint64(1+r.Intn(50)) * 1e17)
		if r.Chance(50) {
			x.Add(x, big.NewInt(int64(r.Intn(1000))))
		}
		if r.Chance(30) {
			x.Mul(x, big.NewInt(int64(1+r.Intn(1000))))
		}
		return x
	}
}

func runLocking(rng *Rng, n int, st *Stats, param string) ([]string, []any) {
	focus := "all"
	only := -1
	histLen := 14
	for _, kv := range strings.Split(param, ",") {
		if strings.HasPrefix(kv, "proj=") {
			focus = kv[5:]
		}
		if strings.HasPrefix(kv, "only=") {
			fmt.Sscan(kv[5:], &only)
		}
		if strings.HasPrefix(kv, "blocks=") {
			fmt.Sscan(kv[7:], &histLen)
		}
	}
	mask, ok := lkMasks[focus]
	if !ok {
		mask = lkMasks["all"]
	}
	var cases []string
	var replays []any
	seen := map[string]bool{}
	for ci := 0; ci < n; ci++ {
		r := rng.Fork(uint64(ci))
		if only >= 0 && ci != only {
			continue
		}
		c, rep, sig := lockingHistory(r, st, mask, focus, histLen, ci)
		if !seen[sig] {
			seen[sig] = true
			st.Distinct++
		}
		cases = append(cases, c)
		replays = append(replays, rep)
	}
	return cases, replays
}

func lockingHistory(r *Rng, st *Stats, mask, focus string, blocks int, ci int) (string, any, string) {
	e := NewEnv()
	k := e.Locking
	nv := 2 + r.Intn(6)
	vals := make([]*lkVal, nv+1)
	for i := range vals {
		vals[i] = mkVal(fmt.Sprintf("val-%d-%d", ci%7, i))
	}
	tokens := []common.Address{{}, goattypes.GoatTokenContract, common.HexToAddress("0x1111111111111111111111111111111111111111"), common.HexToAddress("0xabcdefabcdefabcdefabcdefabcdefabcdefabcd")}
	ntok := 1 + r.Intn(len(tokens))
	tokens = tokens[:ntok]

	// parameters
	p := lockingtypes.DefaultParams()
	p.UnlockDuration = time.Duration(1+r.Intn(5)) * 10 * time.Second
	p.ExitingDuration = p.UnlockDuration + time.Duration(r.Intn(5))*10*time.Second
	p.DowntimeJailDuration = time.Duration(1+r.Intn(3)) * time.Minute
	p.MaxValidators = int64(1 + r.Intn(5))
	p.SignedBlocksWindow = int64(3 + r.Intn(6))
	p.MaxMissedPerWindow = int64(1 + r.Intn(int(p.SignedBlocksWindow)-1))
	p.SlashFractionDoubleSign = math.LegacyNewDecWithPrec(int64(1+r.Intn(99)), 2)
	p.SlashFractionDowntime = math.LegacyNewDecWithPrec(int64(1+r.Intn(999)), 3)
	p.HalvingInterval = int64(2 + r.Intn(6))
	p.InitialBlockReward = []int64{2378234400000000000, 1000, 7, 1000000000000000000}[r.Intn(4)]
	if err := p.Validate(); err != nil {
		panic(err)
	}
	must := func(err error) {
		if err != nil {
			panic(err)
		}
	}
	must(k.Params.Set(e.Ctx, p))
	must(k.Threshold.Set(e.Ctx, lockingtypes.Threshold{}))
	must(k.EthTxQueue.Set(e.Ctx, lockingtypes.EthTxQueue{}))
	remain := genAmount(r)
	if r.Chance(50) {
		remain = new(big.Int).Mul(remain, big.NewInt(1000))
	}
	pool0 := lockingtypes.RewardPool{Remain: math.NewIntFromBigInt(remain), Goat: math.ZeroInt(), Gas: math.ZeroInt()}
	must(k.RewardPool.Set(e.Ctx, pool0))
	// pre-existing auth accounts (e.g. a relayer voter using the same key) for some validators
	var preAcc []string
	for i, v := range vals {
		if i > 0 && r.Chance(10) {
			acc := e.Acc.NewAccountWithAddress(e.Ctx, sdk.AccAddress(v.Addr.Bytes()))
			e.Acc.SetAccount(e.Ctx, acc)
			preAcc = append(preAcc, cNb(v.AddrN))
		}
	}
	evLimits := r.Chance(70)
	maxAgeDur := time.Duration(30+r.Intn(60)) * time.Second
	maxAgeBlocks := int64(2 + r.Intn(4))
	cp := cmtproto.ConsensusParams{}
	if evLimits {
		cp.Evidence = &cmtproto.EvidenceParams{MaxAgeNumBlocks: maxAgeBlocks, MaxAgeDuration: maxAgeDur}
	}
	limitsCoq := "None"
	if evLimits {
		limitsCoq = fmt.Sprintf("(Some (%d, %d)%%Z)", int64(maxAgeDur/time.Millisecond), maxAgeBlocks)
	}

	initCoq := fmt.Sprintf("(mkLI (mkLP %d %d %d %d %d %d %s %s %d %d) %s %s)",
		int64(p.UnlockDuration/time.Millisecond), int64(p.ExitingDuration/time.Millisecond), int64(p.DowntimeJailDuration/time.Millisecond), p.MaxValidators, p.SignedBlocksWindow, p.MaxMissedPerWindow,
		decRepr(p.SlashFractionDoubleSign).String(), decRepr(p.SlashFractionDowntime).String(), p.HalvingInterval, p.InitialBlockReward,
		cTuple(cZ(remain), "0%Z", "0%Z"), cList(preAcc))
	initCoq = strings.ReplaceAll(initCoq, "(mkLP ", "(mkLP%Z ")
	// mkLP takes Z arguments: print inside Z scope
	initCoq = strings.Replace(initCoq, "(mkLP%Z ", "(mkLP ", 1)

	var ops []string
	var recs []lkOpRec
	addOp := func(opCoq string, cls int, ups, txs []string, rec lkOpRec) {
		ops = append(ops, cTuple(opCoq, cTuple(fmt.Sprintf("%d%%N", cls), cList(ups), cList(txs))))
		rec.Cls = cls
		recs = append(recs, rec)
		st.Ops++
		st.Count(fmt.Sprintf("%s:class%d", rec.Kind, cls))
	}

	// --- monitors' bookkeeping ---
	cmtSet := cmttypes.NewValidatorSet(nil)
	everLocked := map[string]*big.Int{}
	delivered := map[string]*big.Int{} // released and already handed over
	grantedGas := new(big.Int).Set(remain)
	claimedOut := new(big.Int)
	tombstoned := map[string]bool{}
	reqTime := map[uint64]time.Time{}
	reqExit := map[uint64]bool{}
	deliveredIDs := map[uint64]bool{}
	unlockID := uint64(1)
	claimID := uint64(1)
	addBig := func(m map[string]*big.Int, k string, v *big.Int) {
		if m[k] == nil {
			m[k] = new(big.Int)
		}
		m[k].Add(m[k], v)
	}
	now := time.Unix(1700000000, 0).UTC()
	prevNow := now
	subSecond := r.Side(40).Chance(40) // four histories in ten carry sub-second block times
	height := int64(1)
	created := map[int]bool{}
	anchored := false
	var sig strings.Builder

	dumpNow := func(tag string) *lkDump {
		d := dumpLocking(e, vals)
		addOp("(LDump "+d.coq+")", 0, nil, nil, lkOpRec{Kind: "dump"})
		return d
	}

	checkLedgers := func(d *lkDump, where string) {
		// C11: ever locked = held + slashed + released (queued or delivered)
		st.Chk("C11-ledger")
		held := map[string]*big.Int{}
		for _, v := range d.vals {
			for _, c := range v.Locking {
				addBig(held, c.Denom, c.Amount.BigInt())
				if c.Amount.IsNegative() {
					st.Violate("C11", "nonneg", "negative-holding", "negative holding "+where, recs)
				}
			}
		}
		it, _ := k.Slashed.Iterate(e.Ctx, nil)
		for ; it.Valid(); it.Next() {
			kv, _ := it.KeyValue()
			addBig(held, kv.Key, kv.Value.BigInt())
			if kv.Value.IsNegative() {
				st.Violate("C11", "nonneg", "negative-slashed", "negative slashed amount "+where, recs)
			}
		}
		it.Close()
		uit, _ := k.UnlockQueue.Iterate(e.Ctx, nil)
		for ; uit.Valid(); uit.Next() {
			kv, _ := uit.KeyValue()
			for _, u := range kv.Value.Unlocks {
				addBig(held, lockingtypes.TokenDenom(common.BytesToAddress(u.Token)), u.Amount.BigInt())
			}
		}
		uit.Close()
		for _, u := range d.queue.Unlocks {
			addBig(held, lockingtypes.TokenDenom(common.BytesToAddress(u.Token)), u.Amount.BigInt())
		}
		for dn, v := range delivered {
			addBig(held, dn, v)
		}
		denoms := map[string]bool{}
		for dn := range held {
			denoms[dn] = true
		}
		for dn := range everLocked {
			denoms[dn] = true
		}
		for dn := range denoms {
			a, b := everLocked[dn], held[dn]
			if a == nil {
				a = new(big.Int)
			}
			if b == nil {
				b = new(big.Int)
			}
			if a.Cmp(b) != 0 {
				st.Violate("C11", "ledger", "ledger-mismatch", fmt.Sprintf("%s: token %s ever locked %s != held+slashed+released %s", where, dn, a, b), recs)
			}
		}
		// C12: granted + gas_in + initial = remain + pools + unclaimed + claimed
		st.Chk("C12-ledger")
		tot := new(big.Int)
		tot.Add(tot, d.pool.Remain.BigInt()).Add(tot, d.pool.Goat.BigInt()).Add(tot, d.pool.Gas.BigInt())
		if d.pool.Remain.IsNegative() || d.pool.Goat.IsNegative() || d.pool.Gas.IsNegative() {
			st.Violate("C12", "nonneg", "negative-pool", fmt.Sprintf("%s: negative reward pool remain=%s goat=%s gas=%s", where, d.pool.Remain, d.pool.Goat, d.pool.Gas), recs)
		}
		for _, v := range d.vals {
			tot.Add(tot, v.Reward.BigInt()).Add(tot, v.GasReward.BigInt())
			if v.Reward.IsNegative() || v.GasReward.IsNegative() {
				st.Violate("C12", "nonneg", "negative-reward", where+": negative accrued reward", recs)
			}
		}
		for _, rw := range d.queue.Rewards {
			tot.Add(tot, rw.Goat.BigInt()).Add(tot, rw.Gas.BigInt())
		}
		tot.Add(tot, claimedOut)
		if tot.Cmp(grantedGas) != 0 {
			st.Violate("C12", "ledger", "reward-ledger-mismatch", fmt.Sprintf("%s: granted+gas+initial %s != accounted %s", where, grantedGas, tot), recs)
		}
		// C14: tombstoned stays tombstoned with zero power, outside ranking
		st.Chk("C14-tombstone")
		for a := range tombstoned {
			v := d.vals[a]
			if v.Status != lockingtypes.Tombstoned || v.Power != 0 {
				st.Violate("C14", "tombstone", "tombstone-left", fmt.Sprintf("%s: tombstoned validator %x has status %s power %d", where, a, v.Status, v.Power), recs)
			}
			for _, rk := range d.rank {
				if rk[1] == a {
					st.Violate("C14", "tombstone", "tombstone-ranked", fmt.Sprintf("%s: tombstoned validator %x is in the power ranking", where, a), recs)
				}
			}
		}
	}

	// some histories put more than 64 unlocks into one maturity bucket, another bucket right behind it, and
	// let both mature in the same block
	bulkAt := -1
	if r.Chance(12) && blocks > 6 {
		bulkAt = 2 + r.Intn(blocks/2)
	}
	for b := 0; b < blocks; b++ {
		now = now.Add(time.Duration(1+r.Intn(20)) * time.Second)
		if r.Chance(10) || (bulkAt >= 0 && b == bulkAt+2) {
			now = now.Add(p.UnlockDuration)
		}
		if r.Chance(5) {
			now = now.Add(p.DowntimeJailDuration)
		}
		if subSecond {
			// sub-second block times; some blocks land exactly on, just before or just after the maturity instant of
			// a queued unlock (side streams: the operations of the history stay what they were)
			sd := r.Side(uint64(41 + b))
			if sd.Chance(70) {
				now = now.Add(time.Duration(sd.Intn(1000)) * time.Millisecond)
			}
			if sd.Chance(30) {
				var keys []time.Time
				it, _ := e.Locking.UnlockQueue.Iterate(e.Ctx, nil)
				for ; it.Valid(); it.Next() {
					k, _ := it.Key()
					if k.After(prevNow.Add(time.Second)) {
						keys = append(keys, k)
					}
				}
				it.Close()
				if len(keys) > 0 {
					k := keys[sd.Intn(minInt(2, len(keys)))]
					d := time.Duration([]int{-999, -500, -1, 0, 0, 1, 400}[sd.Intn(7)]) * time.Millisecond
					if sd.Chance(30) {
						d = -time.Duration(1+sd.Intn(999)) * time.Millisecond
					}
					now = k.Add(d)
					st.Count(fmt.Sprintf("block-time:next-to-an-unlock-maturity:%s", map[bool]string{true: "before", false: "at-or-after"}[d < 0]))
				}
			}
			st.Count("block-time:sub-second-history-block")
		}
		prevNow = now
		ctx := e.Ctx.WithBlockHeight(height).WithBlockTime(now).WithConsensusParams(cp)
		e.Ctx = ctx

		// ---------- BeginBlocker ----------
		{
			var votes []abci.VoteInfo
			var votesCoq []string
			type vrec struct {
				A string
				P int64
				F bool
			}
			var vr []vrec
			for _, cv := range cmtSet.Validators {
				absent := r.Chance(25) && !bytes.Equal(cv.Address, vals[0].Addr.Bytes())
				flag := cmtproto.BlockIDFlagCommit
				if absent {
					flag = cmtproto.BlockIDFlagAbsent
				} else if r.Chance(10) {
					flag = cmtproto.BlockIDFlagNil
				}
				votes = append(votes, abci.VoteInfo{Validator: abci.Validator{Address: cv.Address, Power: cv.VotingPower}, BlockIdFlag: flag})
				votesCoq = append(votesCoq, cTuple(cNb(new(big.Int).SetBytes(cv.Address)), fmt.Sprintf("%d%%Z", cv.VotingPower), cBool(absent)))
				vr = append(vr, vrec{hex.EncodeToString(cv.Address), cv.VotingPower, absent})
			}
			var evs cmtEvList
			var evsCoq []string
			if r.Chance(12) {
				ne := 1 + r.Intn(2)
				for i := 0; i < ne; i++ {
					vi := 1 + r.Intn(len(vals)-1)
					if !created[vi] && !r.Chance(5) {
						continue
					}
					typ := []comet.MisbehaviorType{comet.DuplicateVote, comet.LightClientAttack, comet.Unknown}[r.Intn(3)]
					if r.Chance(80) {
						typ = comet.DuplicateVote
					}
					eh := height - int64(r.Intn(int(maxAgeBlocks)+3))
					et := now.Add(-time.Duration(r.Intn(int(maxAgeDur/time.Second)+40)) * time.Second)
					evs = append(evs, cmtEv{typ, cmtVal{vals[vi].Addr.Bytes(), 1}, eh, et})
					evsCoq = append(evsCoq, cTuple(cNb(vals[vi].AddrN), cZ(nsOf(et)), fmt.Sprintf("(%d)%%Z", eh), cBool(typ != comet.Unknown)))
				}
			}
			bctx := ctx.WithVoteInfos(votes).WithCometInfo(cmtInfo{ev: evs})
			before := dumpLockingVals(e)
			cls, _ := e.Tx(func(c sdk.Context) error {
				return k.BeginBlocker(c.WithVoteInfos(votes).WithCometInfo(cmtInfo{ev: evs}).WithConsensusParams(cp))
			})
			_ = bctx
			addOp(fmt.Sprintf("(LOp (KBegin %s (%d)%%Z %s %s %s))", cZ(nsOf(now)), height, limitsCoq, cList(votesCoq), cList(evsCoq)), cls, nil, nil,
				lkOpRec{Kind: "begin", Args: map[string]any{"time": now.Unix(), "height": height, "votes": vr, "evidence": len(evs)}})
			if cls != 0 {
				known := true
				for _, ev := range evs {
					if _, ok := before[string(ev.val.addr)]; !ok {
						known = false
					}
				}
				if known && (height < 2 || len(votes) > 0) {
					st.Violate("C13", "hooks-total", "begin-block-fails", fmt.Sprintf("BeginBlocker failed at height %d although all votes/evidence name known validators", height), recs)
				}
			} else {
				after := dumpLockingVals(e)
				for a, v := range after {
					if v.Status == lockingtypes.Tombstoned {
						tombstoned[a] = true
					}
					// C14 downtime: downgraded now => slashed by the fraction, power 0, jailed until now+dur
					bv := before[a]
					if bv.Status == lockingtypes.Active && v.Status == lockingtypes.Downgrade {
						st.Chk("C14-downtime")
						if v.Power != 0 || !v.JailedUntil.Equal(now.Add(p.DowntimeJailDuration)) {
							st.Violate("C14", "downtime", "downgrade-state", "downgraded validator keeps power or has a wrong jail time", recs)
						}
						for _, c := range bv.Locking {
							exp := math.LegacyNewDecFromInt(c.Amount).Mul(p.SlashFractionDowntime).TruncateInt()
							if exp.IsZero() {
								exp = c.Amount
							}
							if !bv.Locking.AmountOf(c.Denom).Sub(v.Locking.AmountOf(c.Denom)).Equal(exp) {
								st.Violate("C14", "downtime", "downtime-slash-amount", fmt.Sprintf("downtime slash of %s %s is not the configured fraction", c.Amount, c.Denom), recs)
							}
						}
					}
					if bv.Status != lockingtypes.Active && bv.Status != lockingtypes.Unspecified && v.Status == lockingtypes.Downgrade && bv.Status != lockingtypes.Downgrade {
						st.Violate("C14", "downtime", "inactive-counted", "a validator that was not active was downgraded for downtime", recs)
					}
				}
			}
			sig.WriteString(fmt.Sprintf("B%d,%d;", len(votes), len(evs)))
		}

		// ---------- ProcessLockingRequest ----------
		{
			var q goattypes.LockingRequests
			var gasC, grantC, wC, thC, crC, lkC, ulC, clC []string
			args := map[string]any{}
			ngas := 1
			if r.Chance(2) {
				ngas = r.Intn(3)
			}
			var gasAmt []*big.Int
			for i := 0; i < ngas; i++ {
				g := genAmount(r)
				if r.Chance(30) {
					g = big.NewInt(0)
				}
				gasAmt = append(gasAmt, g)
				q.Gas = append(q.Gas, goattypes.NewGasRequest(uint64(height), g))
				gasC = append(gasC, cZ(g))
			}
			var grantAmt []*big.Int
			if r.Chance(20) {
				g := genAmount(r)
				grantAmt = append(grantAmt, g)
				q.Grants = append(q.Grants, &goattypes.GrantRequest{Amount: new(big.Int).Set(g)})
				grantC = append(grantC, cZ(g))
			}
			if b == 0 || r.Chance(15) {
				for ti, t := range tokens {
					if b == 0 || r.Chance(40) {
						w := []uint64{0, 1, 1, 1, 2, 3, 10, 1000}[r.Intn(8)]
						if b == 0 && ti == 0 {
							w = 1 + uint64(r.Intn(3))
						}
						q.UpdateWeights = append(q.UpdateWeights, &goattypes.UpdateTokenWeightRequest{Token: t, Weight: w})
						wC = append(wC, cTuple(cNb(new(big.Int).SetBytes(t.Bytes())), cN(w)+"%N"))
					}
				}
				if r.Chance(3) {
					t := common.HexToAddress("0xdead")
					q.UpdateWeights = append(q.UpdateWeights, &goattypes.UpdateTokenWeightRequest{Token: t, Weight: 5})
					wC = append(wC, cTuple(cNb(new(big.Int).SetBytes(t.Bytes())), "5%N"))
				}
			}
			if r.Chance(15) || (b == 0 && r.Chance(60)) {
				t := tokens[r.Intn(len(tokens))]
				th := genAmount(r)
				if r.Chance(30) {
					th = big.NewInt(0)
				}
				q.UpdateThresholds = append(q.UpdateThresholds, &goattypes.UpdateTokenThresholdRequest{Token: t, Threshold: new(big.Int).Set(th)})
				thC = append(thC, cTuple(cNb(new(big.Int).SetBytes(t.Bytes())), cZ(th)))
			}
			var createdNow []int
			curVals := dumpLockingVals(e)
			for vi, v := range vals {
				// a second create request for a validator that exited (Inactive): its record must survive it
				again := created[vi] && curVals[string(v.Addr.Bytes())].Status == lockingtypes.Inactive && r.Chance(12)
				if again {
					st.Count("create-request-for-an-exited-validator")
				}
				if (!created[vi] && (r.Chance(35) || vi == 0)) || r.Chance(2) || again {
					claimed := v.Addr
					if r.Chance(1) && vi != 0 {
						claimed = vals[(vi+1)%len(vals)].Addr
					}
					q.Creates = append(q.Creates, &goattypes.CreateRequest{Validator: claimed, Pubkey: v.Pub64})
					crC = append(crC, cTuple(cNb(new(big.Int).SetBytes(claimed.Bytes())), cNb(v.AddrN), cPk(v.Pub33N)))
					if claimed == v.Addr {
						createdNow = append(createdNow, vi)
					}
				}
			}
			nl := r.Intn(4)
			type lrec struct {
				V, T string
				A string
			}
			var lr []lrec
			lockSum := map[string]*big.Int{}
			if !anchored { // the anchor validator locks a solid amount of token 0 (weight >= 1) in the first block
				a := new(big.Int).Mul(big.NewInt(int64(1+r.Intn(40))), big.NewInt(1e18))
				q.Locks = append(q.Locks, &goattypes.LockRequest{Validator: vals[0].Addr, Token: tokens[0], Amount: new(big.Int).Set(a)})
				lkC = append(lkC, cTuple(cNb(vals[0].AddrN), cNb(new(big.Int).SetBytes(tokens[0].Bytes())), cZ(a)))
				addBig(lockSum, lockingtypes.TokenDenom(tokens[0]), a)
				lr = append(lr, lrec{vals[0].Addr.Hex(), tokens[0].Hex(), a.String()})
			}
			for i := 0; i < nl; i++ {
				vi := r.Intn(len(vals))
				if !created[vi] && !contains(createdNow, vi) && !r.Chance(2) {
					continue
				}
				t := tokens[r.Intn(len(tokens))]
				if r.Chance(2) {
					t = common.HexToAddress("0xbeef")
				}
				a := genAmount(r)
				q.Locks = append(q.Locks, &goattypes.LockRequest{Validator: vals[vi].Addr, Token: t, Amount: new(big.Int).Set(a)})
				lkC = append(lkC, cTuple(cNb(vals[vi].AddrN), cNb(new(big.Int).SetBytes(t.Bytes())), cZ(a)))
				addBig(lockSum, lockingtypes.TokenDenom(t), a)
				lr = append(lr, lrec{vals[vi].Addr.Hex(), t.Hex(), a.String()})
			}
			nu := 0
			if r.Chance(35) {
				nu = 1 + r.Intn(3)
			}
			type urec struct {
				Id   uint64
				V, T string
				A    string
			}
			var ur []urec
			var uids []uint64
			pre := dumpLockingVals(e)
			bulkV, bulkT := -1, -1
			if b == bulkAt {
				for vi := 1; vi < len(vals) && bulkV < 0; vi++ {
					for ti, t := range tokens {
						if created[vi] && pre[string(vals[vi].Addr.Bytes())].Locking.AmountOf(lockingtypes.TokenDenom(t)).BigInt().Cmp(big.NewInt(1000)) > 0 {
							bulkV, bulkT = vi, ti
							break
						}
					}
				}
				if bulkV >= 0 {
					nu = 64 + r.Intn(16)
					st.Count("bulk-unlock-bucket")
				}
			}
			if bulkAt >= 0 && b == bulkAt+1 && nu == 0 {
				nu = 1 + r.Intn(2)
			}
			for i := 0; i < nu; i++ {
				vi := 1 + r.Intn(len(vals)-1)
				if bulkV >= 0 {
					vi = bulkV
				}
				if !created[vi] && !r.Chance(2) {
					continue
				}
				t := tokens[r.Intn(len(tokens))]
				if bulkV >= 0 {
					t = tokens[bulkT]
				}
				var a *big.Int
				held := pre[string(vals[vi].Addr.Bytes())].Locking.AmountOf(lockingtypes.TokenDenom(t)).BigInt()
				switch x := r.Intn(5); {
				case bulkV >= 0:
					a = big.NewInt(int64(1 + x))
				case x == 0:
					a = big.NewInt(0)
				case x == 1:
					a = new(big.Int).Set(held)
				case x == 2:
					a = new(big.Int).Add(held, big.NewInt(int64(1+r.Intn(5))))
				case x == 3:
					a = new(big.Int).Rsh(held, uint(1+r.Intn(3)))
				default:
					a = genAmount(r)
				}
				rc := common.BytesToAddress(r.Bytes(20))
				q.Unlocks = append(q.Unlocks, &goattypes.UnlockRequest{Id: unlockID, Validator: vals[vi].Addr, Recipient: rc, Token: t, Amount: new(big.Int).Set(a)})
				ulC = append(ulC, cTuple(cN(unlockID)+"%N", cNb(vals[vi].AddrN), cNb(new(big.Int).SetBytes(rc.Bytes())), cNb(new(big.Int).SetBytes(t.Bytes())), cZ(a)))
				ur = append(ur, urec{unlockID, vals[vi].Addr.Hex(), t.Hex(), a.String()})
				uids = append(uids, unlockID)
				unlockID++
			}
			if r.Chance(20) {
				vi := r.Intn(len(vals))
				if created[vi] || r.Chance(5) {
					rc := common.BytesToAddress(r.Bytes(20))
					q.Claims = append(q.Claims, &goattypes.ClaimRequest{Id: claimID, Validator: vals[vi].Addr, Recipient: rc})
					clC = append(clC, cTuple(cN(claimID)+"%N", cNb(vals[vi].AddrN), cNb(new(big.Int).SetBytes(rc.Bytes()))))
					claimID++
					// further claims in the same list: the same validator again, or another one
					for r.Chance(30) {
						vj := vi
						if r.Chance(35) {
							vj = r.Intn(len(vals))
						}
						rc2 := common.BytesToAddress(r.Bytes(20))
						q.Claims = append(q.Claims, &goattypes.ClaimRequest{Id: claimID, Validator: vals[vj].Addr, Recipient: rc2})
						clC = append(clC, cTuple(cN(claimID)+"%N", cNb(vals[vj].AddrN), cNb(new(big.Int).SetBytes(rc2.Bytes()))))
						claimID++
						st.Count(fmt.Sprintf("claims-in-one-list:same-validator=%v", vj == vi))
					}
				}
			}
			args["locks"], args["unlocks"], args["creates"], args["weights"], args["thresholds"] = lr, ur, len(q.Creates), len(q.UpdateWeights), len(q.UpdateThresholds)
			cls, _ := e.Tx(func(c sdk.Context) error { return k.ProcessLockingRequest(c, q) })
			opCoq := fmt.Sprintf("(LOp (KReq %s (%d)%%Z (mkLR %s %s %s %s %s %s %s %s)))", cZ(nsOf(now)), height,
				cList(gasC), cList(grantC), cList(wC), cList(thC), cList(crC), cList(lkC), cList(ulC), cList(clC))
			addOp(opCoq, cls, nil, nil, lkOpRec{Kind: "req", Args: args})
			sig.WriteString(fmt.Sprintf("R%d,%d,%d,%d,%d;", len(q.Creates), len(q.Locks), len(q.Unlocks), len(q.UpdateWeights), cls))
			if cls == 0 {
				if created[0] || contains(createdNow, 0) {
					anchored = true
				}
				for _, vi := range createdNow {
					created[vi] = true
				}
				for dn, v := range lockSum {
					addBig(everLocked, dn, v)
				}
				for _, g := range gasAmt {
					if g.Sign() > 0 {
						grantedGas.Add(grantedGas, g)
					}
				}
				for _, g := range grantAmt {
					grantedGas.Add(grantedGas, g)
				}
				for i, id := range uids {
					reqTime[id] = now
					bv := pre[string(q.Unlocks[i].Validator.Bytes())]
					reqExit[id] = bv.Status == lockingtypes.Inactive || bv.Status == lockingtypes.Tombstoned
				}
				// C11: a single unlock never releases more than requested nor more than held (single-unlock batches)
				if len(q.Unlocks) == 1 && len(q.Locks) == 0 {
					st.Chk("C11-unlock-bound")
					u := q.Unlocks[0]
					held := pre[string(u.Validator.Bytes())].Locking.AmountOf(lockingtypes.TokenDenom(u.Token)).BigInt()
					got := findUnlock(e, u.Id)
					if got != nil && (got.Cmp(u.Amount) > 0 || got.Cmp(held) > 0) {
						st.Violate("C11", "unlock-bound", "unlock-exceeds", fmt.Sprintf("unlock %d released %s, requested %s, held %s", u.Id, got, u.Amount, held), recs)
					}
				}
			}
		}

		// ---------- EndBlocker ----------
		{
			var ups []abci.ValidatorUpdate
			cls, _ := e.Tx(func(c sdk.Context) error {
				var err error
				ups, err = k.EndBlocker(c)
				return err
			})
			var upsCoq []string
			type uprec struct {
				A string
				P int64
			}
			var upr []uprec
			if cls == 0 {
				for _, u := range ups {
					addr := cmtsecp.PubKey(u.PubKey.GetSecp256K1()).Address()
					upsCoq = append(upsCoq, cTuple(cNb(new(big.Int).SetBytes(addr)), fmt.Sprintf("%d%%N", uint64(u.Power))))
					upr = append(upr, uprec{hex.EncodeToString(addr), u.Power})
				}
			}
			addOp("(LOp KEnd)", cls, upsCoq, nil, lkOpRec{Kind: "end", Out: upr})
			st.Chk("C13-endblock")
			if cls != 0 {
				st.Violate("C13", "hooks-total", "end-block-fails", fmt.Sprintf("EndBlocker failed at height %d", height), recs)
			} else {
				if focus == "C18" {
					initLockingPrefixes(e)
					for _, v := range dumpLockingVals(e) {
						if v.Status == lockingtypes.Pending && v.Power > 0 {
							st.Count("export:state-has-a-wait-listed-validator-with-power")
							break
						}
					}
					exportImportCheck(e, st, []string{"locking"}, recs)
				}
				// C13: CometBFT must accept the updates; accumulated set must equal the module's record
				cu, err := cmttypes.PB2TM.ValidatorUpdates(ups)
				if err == nil && len(cu) > 0 {
					err = cmtSet.UpdateWithChangeSet(cu)
				}
				d := dumpLocking(e, vals)
				if err != nil {
					key := "comet-rejects-update"
					if strings.Contains(err.Error(), "overflow") || strings.Contains(err.Error(), "exceeds") || strings.Contains(err.Error(), "MaxTotalVotingPower") {
						key = "power-overflow"
					}
					if strings.Contains(err.Error(), "empty set") {
						// CometBFT also refuses to empty the set; that is not one of the conditions of the
						// property (environment assumption, as in cosmos-sdk staking) - counted, not reported
						st.Count("env:update-would-empty-the-set")
						cmtSet = cmtSetFrom(d, e)
						checkLedgers(d, fmt.Sprintf("after end-block %d", height))
						goto endDone
					}
					st.Violate("C13", "comet-accepts", key, fmt.Sprintf("CometBFT rejects the validator updates of height %d: %v", height, err), recs)
					// resynchronise the oracle with the module's own record so that the history can go on
					cmtSet = cmtSetFrom(d, e)
				} else {
					st.Chk("C13-set-equal")
					if !sameSet(cmtSet, d.set) {
						st.Violate("C13", "set-equal", "set-mismatch", fmt.Sprintf("accumulated validator updates differ from the module's validator set at height %d", height), recs)
						cmtSet = cmtSetFrom(d, e)
					}
					if int64(len(d.set)) > p.MaxValidators {
						st.Violate("C13", "max", "set-too-large", "validator set larger than MaxValidators", recs)
					}
					minMember := [2]string{}
					for a, pw := range d.set {
						v := d.vals[a]
						if v.Status != lockingtypes.Active || v.Power != pw || pw == 0 {
							st.Violate("C13", "members", "member-state", fmt.Sprintf("set member %x: status %s power %d recorded %d", a, v.Status, v.Power, pw), recs)
						}
						_ = minMember
					}
					// top-K: no ranked non-member outranks a member (power, then address)
					for _, rk := range d.rank {
						if _, in := d.set[rk[1]]; in {
							continue
						}
						var rp uint64
						fmt.Sscan(rk[0], &rp)
						for a, pw := range d.set {
							if rp > pw || (rp == pw && rk[1] > a) {
								st.Violate("C13", "topk", "outranked", fmt.Sprintf("non-member %x (power %d) outranks member %x (power %d)", rk[1], rp, a, pw), recs)
							}
						}
						if int64(len(d.set)) < p.MaxValidators {
							st.Violate("C13", "topk", "eligible-left-out", fmt.Sprintf("ranked validator %x left out although the set is not full", rk[1]), recs)
						}
					}
				}
				checkLedgers(d, fmt.Sprintf("after end-block %d", height))
			}
		endDone:
		}

		// ---------- hand-over ----------
		if r.Chance(70) {
			var txsCoq []string
			cls, _ := e.Tx(func(c sdk.Context) error {
				txs, err := k.DequeueLockingModuleTx(c)
				if err != nil {
					return err
				}
				for _, tx := range txs {
					txsCoq = append(txsCoq, goatTxCoq(tx, st, recs, delivered, claimedOut, deliveredIDs, reqTime, reqExit, now, p, addBig))
				}
				return nil
			})
			addOp("(LOp KDequeue)", cls, nil, txsCoq, lkOpRec{Kind: "dequeue", Out: len(txsCoq)})
		}
		if r.Chance(30) || b == blocks-1 {
			d := dumpNow("")
			checkLedgers(d, fmt.Sprintf("dump at height %d", height))
			// C15 "once" also means not zero times: an accepted unlock that has not been handed over yet is still
			// waiting in the maturity queue or in the hand-over queue
			waiting := map[uint64]bool{}
			if it, err := k.UnlockQueue.Iterate(e.Ctx, nil); err == nil {
				for ; it.Valid(); it.Next() {
					v, _ := it.Value()
					for _, u := range v.Unlocks {
						waiting[u.Id] = true
					}
				}
				it.Close()
			}
			if q, err := k.EthTxQueue.Get(e.Ctx); err == nil {
				for _, u := range q.Unlocks {
					waiting[u.Id] = true
				}
			}
			var lostIDs []uint64
			for id := range reqTime {
				if !deliveredIDs[id] && !waiting[id] {
					lostIDs = append(lostIDs, id)
				}
			}
			st.Chk("C15-not-lost")
			if len(lostIDs) > 0 {
				sort.Slice(lostIDs, func(i, j int) bool { return lostIDs[i] < lostIDs[j] })
				st.Violate("C15", "once", "unlock-lost", fmt.Sprintf("unlock %d (and %d more) was accepted but is neither handed over nor waiting in a queue at height %d: it can never be released", lostIDs[0], len(lostIDs)-1, height), recs)
			}
		}
		height++
	}
	rep := map[string]any{"family": "locking", "case": ci, "ops": recs, "focus": focus}
	st.Sample(map[string]any{"case": ci, "first_ops": firstN(recs, 6)})
	return finalizeIDs(cTuple(maskCoq(mask), initCoq, cList(ops))), rep, sig.String()
}

func firstN(r []lkOpRec, n int) []lkOpRec {
	if len(r) < n {
		return r
	}
	return r[:n]
}

func contains(l []int, x int) bool {
	for _, y := range l {
		if y == x {
			return true
		}
	}
	return false
}

func dumpLockingVals(e *Env) map[string]lockingtypes.Validator {
	res := map[string]lockingtypes.Validator{}
	it, err := e.Locking.Validators.Iterate(e.Ctx, nil)
	if err != nil {
		panic(err)
	}
	defer it.Close()
	for ; it.Valid(); it.Next() {
		kv, _ := it.KeyValue()
		res[string(kv.Key)] = kv.Value
	}
	return res
}

func findUnlock(e *Env, id uint64) *big.Int {
	it, _ := e.Locking.UnlockQueue.Iterate(e.Ctx, nil)
	defer it.Close()
	for ; it.Valid(); it.Next() {
		kv, _ := it.KeyValue()
		for _, u := range kv.Value.Unlocks {
			if u.Id == id {
				return u.Amount.BigInt()
			}
		}
	}
	return nil
}

func sameSet(cs *cmttypes.ValidatorSet, set map[string]uint64) bool {
	if cs.Size() != len(set) {
		return false
	}
	for _, v := range cs.Validators {
		if p, ok := set[string(v.Address)]; !ok || int64(p) != v.VotingPower {
			return false
		}
	}
	return true
}

func cmtSetFrom(d *lkDump, e *Env) *cmttypes.ValidatorSet {
	var vs []*cmttypes.Validator
	keys := []string{}
	for a := range d.set {
		keys = append(keys, a)
	}
	sort.Strings(keys)
	for _, a := range keys {
		pw := d.set[a]
		if pw == 0 || pw > 1<<59 {
			continue
		}
		v := d.vals[a]
		vs = append(vs, cmttypes.NewValidator(cmtsecp.PubKey(v.Pubkey), int64(pw)))
	}
	defer func() { recover() }()
	return cmttypes.NewValidatorSet(vs)
}

var _ = bytes.Equal
